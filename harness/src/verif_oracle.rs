//! Independent oracles shared by the harnesses (DESIGN.md 2.2: "oracles are written
//! differently from the code").  Pure integer arithmetic, no crate types.
#![allow(dead_code)]

/// Harness obligation with the property label the runner keys on.
///
/// Under Kani this is a *cover* of the negated condition, not an assertion: a Kani assertion is also an
/// assumption, i.e. the first failing obligation would cut the path and mask every later obligation on it
/// (in the shared page-table harnesses an earlier `VP[C10]` failure hid a later `VP[C01]` one).  The runner
/// reads `VP[..]` covers as: SATISFIED = the obligation is violated (with a concrete witness), UNSATISFIABLE /
/// UNREACHABLE = it holds.  In a native replay build (`cfg(test)`) the same macro prints `VIOLATED VP[..]: ..` and
/// goes on (non-cutting as well: one native run reports every obligation the concrete input violates, also when an
/// obligation of another property fails first).
macro_rules! vp {
    ($id:ident, $cond:expr, $msg:literal) => {{
        #[cfg(not(test))]
        kani::cover(!($cond), concat!("VP[", stringify!($id), "]: ", $msg));
        #[cfg(test)]
        if !($cond) {
            std::eprintln!("VIOLATED {}", concat!("VP[", stringify!($id), "]: ", $msg));
        }
    }};
}
pub(crate) use vp;

pub const HALF: u64 = 1 << 47; // 0x0000_8000_0000_0000
pub const UPPER_BASE: u64 = 0xffff_8000_0000_0000;
pub const SPACE: u128 = 1 << 48;
pub const PHYS_LIMIT: u64 = 1 << 52;

/// SDM vol.1 3.3.7.1: canonical = bits 63..48 equal bit 47.
pub fn is_canonical(x: u64) -> bool {
    x < HALF || x >= UPPER_BASE
}
pub fn is_phys(x: u64) -> bool {
    x < PHYS_LIMIT
}
/// Position of a canonical address in the ascending sequence of all 2^48 canonical addresses.
pub fn rank(a: u64) -> u128 {
    if a < HALF {
        a as u128
    } else {
        (a - UPPER_BASE) as u128 + HALF as u128
    }
}
/// Inverse of `rank` for p < 2^48.
pub fn unrank(p: u128) -> u64 {
    if p < HALF as u128 {
        p as u64
    } else {
        (p - HALF as u128) as u64 + UPPER_BASE
    }
}
/// Sign extension of the low 48 bits, written with arithmetic rather than shifts.
pub fn sign_extend48(x: u64) -> u64 {
    let low = x % (1u64 << 48);
    if low >= HALF {
        low + 0xffff_0000_0000_0000
    } else {
        low
    }
}
/// Bit field [lo, lo+len) of x, via division.
pub fn field(x: u64, lo: u32, len: u32) -> u64 {
    ((x as u128 / (1u128 << lo)) % (1u128 << len)) as u64
}
pub fn any_canonical() -> u64 {
    let x: u64 = kani::any();
    kani::assume(is_canonical(x));
    x
}
pub fn any_phys() -> u64 {
    let x: u64 = kani::any();
    kani::assume(is_phys(x));
    x
}
