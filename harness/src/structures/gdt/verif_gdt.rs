//! C14 / C15 / C19 obligations on the GDT, descriptors and selectors (child module of `gdt`:
//! reads and builds `table` / `len` directly).
use super::*;
use crate::structures::tss::TaskStateSegment;
use crate::structures::DescriptorTablePointer;
use crate::verif_oracle::*;

/// Arbitrary *valid* table state: 1 <= len <= MAX, slot 0 is the null descriptor, every other slot
/// (used or not) holds arbitrary bits.  Built through the private fields, not through `append`.
fn any_table<const MAX: usize>() -> GlobalDescriptorTable<MAX> {
    let mut t = GlobalDescriptorTable::<MAX> { table: core::array::from_fn(|_| Entry::new(0)), len: 1 };
    let mut i = 1;
    while i < MAX {
        t.table[i] = Entry::new(kani::any());
        i += 1;
    }
    let len: usize = kani::any();
    kani::assume(len >= 1 && len <= MAX);
    t.len = len;
    t
}
fn any_descriptor() -> Descriptor {
    if kani::any() {
        Descriptor::UserSegment(kani::any())
    } else {
        Descriptor::SystemSegment(kani::any(), kani::any())
    }
}
/// SDM vol.3A fig. 3-8: DPL is bits 45-46 of the (low) descriptor word.
fn oracle_dpl(low: u64) -> u16 {
    ((low / (1u64 << 45)) % 4) as u16
}

fn stub_virt_new_gdt(addr: u64) -> crate::VirtAddr {
    // CBMC object addresses are not canonical; the real constructor is decided for all 2^64 inputs in C03
    unsafe { crate::VirtAddr::new_unsafe(addr) }
}
/// `load` / `load_unsafe` hand the CPU the table's own address and the limit of the *used* slots (8 x len - 1),
/// with exactly one `lgdt`, and change nothing else.
#[kani::proof]
#[kani::stub(crate::addr::VirtAddr::new, stub_virt_new_gdt)]
fn c14_load_hands_cpu_used_slots() {
    use crate::verif_isa as isa;
    let before = isa::havoc();
    let t = any_table::<8>();
    unsafe { t.load_unsafe() };
    let mut want = before;
    want.gdtr_base = t.table.as_ptr() as u64;
    want.gdtr_limit = (8 * t.len - 1) as u16;
    vp!(C14, isa::m().gdtr_limit == want.gdtr_limit, "load gave the CPU a limit that is not 8 x used slots - 1");
    vp!(C14, isa::m().gdtr_base == want.gdtr_base, "load gave the CPU a base that is not the table's address");
    vp!(C14, isa::m().arch_eq(&want) && isa::m().clean(), "load changed other machine state");
    vp!(C14, isa::m().count(isa::EV_LGDT) == 1 && isa::m().nlog == 1, "load is not exactly one lgdt");
    vp!(C14, t.limit() == want.gdtr_limit, "limit() differs from what load hands the CPU");
    kani::cover!(t.len == 8);
    kani::cover!(t.len == 1);
}

macro_rules! gdt_for_max {
    ($m:ident, $MAX:expr, $UNW:expr, $FITS:meta, $n_fits:ident, $n_full:ident, $n_raw:ident, $n_empty:ident) => {
        mod $m {
            use super::*;
            const MAX: usize = $MAX;

            /// One `append` from an arbitrary valid state that has room: induction step of
            /// "null descriptor, then the appended descriptors in order".
            /// (For MAX = 1 nothing ever fits: the harness body is compiled out by `$FITS`.)
            #[cfg($FITS)]
            #[kani::proof]
            #[kani::unwind($UNW)]
            fn $n_fits() {
                let mut t = any_table::<MAX>();
                let before = t.clone();
                let d = any_descriptor();
                let (w0, w1, need) = match d {
                    Descriptor::UserSegment(v) => (v, 0, 1usize),
                    Descriptor::SystemSegment(lo, hi) => (lo, hi, 2usize),
                };
                kani::assume(before.len + need <= MAX);
                let sel = t.append(d);
                vp!(C14, t.len == before.len + need, "append did not grow the table by the descriptor's slot count");
                vp!(C14, t.table[before.len].raw() == w0, "append did not store the (low) word in the first free slot");
                if need == 2 {
                    vp!(C14, t.table[before.len + 1].raw() == w1, "append did not store the high word in the next slot");
                }
                let j: usize = kani::any();
                if j < before.len {
                    vp!(C14, t.table[j].raw() == before.table[j].raw(), "append changed an earlier slot");
                }
                vp!(C14, t.table[0].raw() == 0, "slot 0 is no longer the null descriptor");
                let k: usize = kani::any();
                if k >= before.len + need && k < MAX {
                    vp!(C14, t.table[k].raw() == before.table[k].raw(), "append wrote beyond the descriptor's slots");
                }
                // selector: index = first slot, RPL = DPL, TI = 0 (GDT)
                vp!(C14, sel.0 >> 3 == before.len as u16, "selector index is not the descriptor's first slot");
                vp!(C14, sel.0 & 0b11 == oracle_dpl(w0), "selector RPL is not the descriptor's DPL");
                vp!(C14, sel.0 & 0b100 == 0, "selector does not refer to the GDT (TI set)");
                vp!(C14, t.limit() as usize == 8 * t.len - 1, "limit is not 8 x used slots - 1");
                vp!(C14, t.entries().len() == t.len, "entries() length is not the used slot count");
                kani::cover!(need == 2 && before.len + 2 == MAX || MAX < 3);
                kani::cover!(need == 1 && before.len + 1 == MAX);
                kani::cover!(oracle_dpl(w0) == 2);
            }

            #[kani::proof]
            #[kani::unwind($UNW)]
            fn $n_full() {
                let mut t = any_table::<MAX>();
                let d = any_descriptor();
                let need = match d {
                    Descriptor::UserSegment(_) => 1usize,
                    Descriptor::SystemSegment(_, _) => 2usize,
                };
                kani::assume(t.len + need > MAX);
                kani::cover!(need == 2 && t.len + 1 == MAX || MAX < 2);
                kani::cover!(need == 1);
                let _ = t.append(d);
                vp!(C14, false, "append returned although the descriptor does not fit");
            }

            #[kani::proof]
            #[kani::unwind($UNW)]
            fn $n_raw() {
                let t = any_table::<MAX>();
                vp!(C14, t.limit() as usize == 8 * t.len - 1, "limit is not 8 x used slots - 1");
                let e = t.entries();
                vp!(C14, e.len() == t.len, "entries() length is not the used slot count");
                vp!(C14, e.as_ptr() as usize == t.table.as_ptr() as usize, "entries() does not start at the table");
                let j: usize = kani::any();
                kani::assume(j < t.len);
                vp!(C14, e[j].raw() == t.table[j].raw(), "entries()[j] is not slot j");
                // from_raw_entries reproduces a raw slice
                let raw: [u64; MAX] = kani::any();
                let n: usize = kani::any();
                kani::assume(n >= 1 && n <= MAX && raw[0] == 0);
                let g = GlobalDescriptorTable::<MAX>::from_raw_entries(&raw[..n]);
                vp!(C14, g.len == n, "from_raw_entries length differs from the slice");
                let i: usize = kani::any();
                kani::assume(i < n);
                vp!(C14, g.entries()[i].raw() == raw[i], "from_raw_entries did not reproduce the entries");
                vp!(C14, g.limit() as usize == 8 * n - 1, "from_raw_entries limit wrong");
                kani::cover!(n == MAX);
                kani::cover!(t.len == MAX);
            }

            #[kani::proof]
            fn $n_empty() {
                let t = GlobalDescriptorTable::<MAX>::empty();
                vp!(C14, t.len == 1 && t.table[0].raw() == 0, "empty() is not a single null descriptor");
                vp!(C14, t.limit() == 7, "empty() limit is not 7");
                vp!(C14, t.entries().len() == 1, "empty() entries() is not one slot");
                kani::cover!(true);
            }
        }
    };
}
gdt_for_max!(max1, 1, 3, not(kani), c14_append_fits, c14_append_full_xpanic, c14_entries_limit_from_raw, c14_empty_table);
gdt_for_max!(max2, 2, 4, kani, c14_append_fits, c14_append_full_xpanic, c14_entries_limit_from_raw, c14_empty_table);
gdt_for_max!(max3, 3, 5, kani, c14_append_fits, c14_append_full_xpanic, c14_entries_limit_from_raw, c14_empty_table);
gdt_for_max!(max8, 8, 10, kani, c14_append_fits, c14_append_full_xpanic, c14_entries_limit_from_raw, c14_empty_table);
gdt_for_max!(max9, 9, 11, kani, c14_append_fits, c14_append_full_xpanic, c14_entries_limit_from_raw, c14_empty_table);
// thorough tier: a larger capacity
gdt_for_max!(max32, 32, 34, kani, c14t_append_fits, c14t_append_full_xpanic, c14t_entries_limit_from_raw, c14t_empty_table);

#[kani::proof]
fn c14_from_raw_entries_rejects_xpanic() {
    let raw: [u64; 4] = kani::any();
    let n: usize = kani::any();
    kani::assume(n <= 4);
    // empty slice, non-null first entry or more entries than capacity (MAX = 3)
    kani::assume(n == 0 || raw[0] != 0 || n > 3);
    kani::cover!(n == 0);
    kani::cover!(n == 4 && raw[0] == 0);
    kani::cover!(n == 2 && raw[0] != 0);
    let _ = GlobalDescriptorTable::<3>::from_raw_entries(&raw[..n]);
    vp!(C14, false, "from_raw_entries accepted an invalid slice");
}

#[kani::proof]
fn c14_default_capacity_is_8() {
    let t = GlobalDescriptorTable::new();
    vp!(C14, t.table.len() == 8 && t.len == 1 && t.table[0].raw() == 0, "new() is not an 8-slot table with a null descriptor");
    let d = GlobalDescriptorTable::default();
    vp!(C14, d.len == 1 && d.limit() == 7, "default() differs from new()");
}

// ================================================================= selectors (C14 / C19)
#[kani::proof]
fn c19_segment_selector_codec() {
    let idx: u16 = kani::any();
    kani::assume(idx < 8192);
    let r: u16 = kani::any();
    kani::assume(r < 4);
    let rpl = PrivilegeLevel::from_u16(r);
    vp!(C19, rpl as u16 == r, "PrivilegeLevel::from_u16 changed the level");
    let s = SegmentSelector::new(idx, rpl);
    vp!(C14, s.0 == idx * 8 + r, "SegmentSelector::new is not index*8 + rpl");
    vp!(C14, s.index() == idx && s.rpl() as u16 == r, "SegmentSelector index/rpl do not read back");
    // arbitrary selector bits
    let mut x = SegmentSelector(kani::any());
    let before = x.0;
    vp!(C19, x.index() == before / 8 && x.rpl() as u16 == before % 4, "SegmentSelector getters are not the bit fields");
    let r2: u16 = kani::any();
    kani::assume(r2 < 4);
    x.set_rpl(PrivilegeLevel::from_u16(r2));
    vp!(C19, x.0 == (before - before % 4) + r2, "set_rpl changed other bits or did not replace the RPL");
    vp!(C19, SegmentSelector::NULL.0 == 0, "NULL selector is not 0");
    kani::cover!(before % 4 == 3 && r2 == 0);
}

#[kani::proof]
fn c19_privilege_level_invalid_xpanic() {
    let v: u16 = kani::any();
    kani::assume(v >= 4);
    kani::cover!(v == 4);
    let _ = PrivilegeLevel::from_u16(v);
    vp!(C19, false, "PrivilegeLevel::from_u16 accepted a value >= 4");
}

// ================================================================= C15: descriptor encoding
#[kani::proof]
fn c15_dpl_all_patterns() {
    let d = any_descriptor();
    let low = match d {
        Descriptor::UserSegment(v) => v,
        Descriptor::SystemSegment(lo, _) => lo,
    };
    vp!(C15, d.dpl() as u16 == oracle_dpl(low), "dpl() is not bits 45-46 of the descriptor");
    kani::cover!(oracle_dpl(low) == 1);
    kani::cover!(oracle_dpl(low) == 2);
}

/// Decoder written from SDM vol.3A fig. 8-4 (TSS descriptor in 64-bit mode) / APM vol.2 fig. 4-22.
#[kani::proof]
fn c15_tss_descriptor_decodes() {
    let p: u64 = kani::any();
    let d = unsafe { Descriptor::tss_segment_unchecked(p as *const TaskStateSegment) };
    let (lo, hi) = match d {
        Descriptor::SystemSegment(lo, hi) => (lo, hi),
        Descriptor::UserSegment(_) => {
            vp!(C15, false, "TSS descriptor is not a 16-byte system descriptor");
            (0, 0)
        }
    };
    let limit = field(lo, 0, 16) + (field(lo, 48, 4) << 16);
    let base = field(lo, 16, 24) + (field(lo, 56, 8) << 24) + (field(hi, 0, 32) << 32);
    vp!(C15, base == p, "TSS descriptor base is not the full 64-bit TSS address");
    vp!(C15, limit == 0x67, "TSS descriptor limit is not 0x67");
    vp!(C15, field(lo, 40, 4) == 0b1001, "TSS descriptor type is not 'available 64-bit TSS'");
    vp!(C15, field(lo, 44, 1) == 0, "TSS descriptor has the S (user segment) bit set");
    vp!(C15, field(lo, 45, 2) == 0, "TSS descriptor DPL is not 0");
    vp!(C15, field(lo, 47, 1) == 1, "TSS descriptor is not present");
    vp!(C15, field(lo, 52, 4) == 0, "TSS descriptor AVL/reserved/G bits are not zero");
    vp!(C15, field(hi, 32, 32) == 0, "TSS descriptor upper reserved dword is not zero");
    vp!(C15, d.dpl() as u16 == 0, "dpl() of the TSS descriptor is not ring 0");
    kani::cover!(p >> 63 == 1 && field(p, 31, 1) == 1);
}

#[kani::proof]
fn c15_preset_descriptors_decode() {
    // (descriptor, executable, long-mode, default-size, dpl)
    let cases: [(Descriptor, bool, bool, bool, u64); 4] = [
        (Descriptor::kernel_code_segment(), true, true, false, 0),
        (Descriptor::kernel_data_segment(), false, false, true, 0),
        (Descriptor::user_data_segment(), false, false, true, 3),
        (Descriptor::user_code_segment(), true, true, false, 3),
    ];
    let i: usize = kani::any();
    kani::assume(i < 4);
    let (d, exec, long, dsize, dpl) = cases[i];
    let v = match d {
        Descriptor::UserSegment(v) => v,
        _ => {
            vp!(C15, false, "preset is not a user (code/data) descriptor");
            0
        }
    };
    vp!(C15, field(v, 44, 1) == 1, "preset: S bit (code/data segment) not set");
    vp!(C15, field(v, 47, 1) == 1, "preset: not present");
    vp!(C15, (field(v, 43, 1) == 1) == exec, "preset: executable bit does not match the name");
    vp!(C15, (field(v, 53, 1) == 1) == long, "preset: long-mode bit does not match the name");
    vp!(C15, (field(v, 54, 1) == 1) == dsize, "preset: default-size bit does not match the name");
    vp!(C15, !(long && dsize), "preset: L and D both set");
    vp!(C15, field(v, 45, 2) == dpl && d.dpl() as u64 == dpl, "preset: privilege level does not match the name");
    vp!(C15, field(v, 41, 1) == 1, "preset: data not writable / code not readable");
    // flat 4GiB limit, base 0, granularity
    vp!(C15, field(v, 0, 16) == 0xffff && field(v, 48, 4) == 0xf && field(v, 55, 1) == 1, "preset: limit is not flat");
    vp!(C15, field(v, 16, 24) == 0 && field(v, 56, 8) == 0, "preset: base is not 0");
    // the two 32-bit code presets exist only as flag constants
    let c32k = DescriptorFlags::KERNEL_CODE32.bits();
    let c32u = DescriptorFlags::USER_CODE32.bits();
    vp!(C15, field(c32k, 43, 1) == 1 && field(c32k, 53, 1) == 0 && field(c32k, 54, 1) == 1 && field(c32k, 45, 2) == 0 && field(c32k, 47, 1) == 1 && field(c32k, 44, 1) == 1, "KERNEL_CODE32 does not decode to a ring-0 32-bit code segment");
    vp!(C15, field(c32u, 43, 1) == 1 && field(c32u, 53, 1) == 0 && field(c32u, 54, 1) == 1 && field(c32u, 45, 2) == 3 && field(c32u, 47, 1) == 1 && field(c32u, 44, 1) == 1, "USER_CODE32 does not decode to a ring-3 32-bit code segment");
    kani::cover!(i == 3);
}

#[kani::proof]
fn c15_tss_and_pointer_layout() {
    use core::mem::{align_of, size_of};
    vp!(C15, size_of::<TaskStateSegment>() == 0x68, "TSS is not 0x68 bytes");
    let t = TaskStateSegment::new();
    let base = &t as *const TaskStateSegment as usize;
    vp!(C15, core::ptr::addr_of!(t.privilege_stack_table) as usize - base == 4, "privilege stack table is not at byte 4");
    vp!(C15, core::ptr::addr_of!(t.interrupt_stack_table) as usize - base == 0x24, "interrupt stack table is not at byte 0x24");
    vp!(C15, core::ptr::addr_of!(t.iomap_base) as usize - base == 0x66, "I/O map base is not at byte 0x66");
    vp!(C15, { t.iomap_base } == 0x68, "I/O map base is not initialised to the structure size");
    vp!(C15, size_of::<[VirtAddrAlias; 3]>() == 24 && size_of::<[VirtAddrAlias; 7]>() == 56, "stack tables are not 3 and 7 quadwords");
    let d = TaskStateSegment::default();
    vp!(C15, { d.iomap_base } == 0x68, "default() I/O map base wrong");
    let i: usize = kani::any();
    kani::assume(i < 7);
    let ist = { t.interrupt_stack_table };
    vp!(C15, ist[i].as_u64() == 0, "new() TSS has a non-zero interrupt stack");
    // DescriptorTablePointer: 16-bit limit then 64-bit base, 10 bytes
    vp!(C15, size_of::<DescriptorTablePointer>() == 10, "DescriptorTablePointer is not 10 bytes");
    let p = DescriptorTablePointer { limit: kani::any(), base: crate::VirtAddr::zero() };
    let pb = &p as *const DescriptorTablePointer as usize;
    vp!(C15, core::ptr::addr_of!(p.limit) as usize - pb == 0, "limit is not at byte 0");
    vp!(C15, core::ptr::addr_of!(p.base) as usize - pb == 2, "base is not at byte 2");
    vp!(C15, align_of::<DescriptorTablePointer>() <= 2, "DescriptorTablePointer is over-aligned");
    kani::cover!(true);
}
type VirtAddrAlias = crate::VirtAddr;
