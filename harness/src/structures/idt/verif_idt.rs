//! C12 -- IDT layout and gate format; C03 -- handler addresses read back canonical
//! (child module of `idt`: reads the private gate fields and `EntryOptions.bits`).
use super::*;
use crate::verif_isa as isa;
use crate::verif_isa::{havoc, m};
use crate::verif_oracle::*;

type E = Entry<HandlerFunc>;

fn gate_bytes<F>(e: &Entry<F>) -> [u8; 16] {
    unsafe { core::ptr::read(e as *const Entry<F> as *const [u8; 16]) }
}
fn le(b: &[u8; 16], lo: usize, n: usize) -> u64 {
    let mut v = 0u64;
    let mut i = 0;
    while i < n {
        v |= (b[lo + i] as u64) << (8 * i);
        i += 1;
    }
    v
}
/// Decoder of a 64-bit interrupt/trap gate, SDM vol.3A fig. 6-8 / APM vol.2 fig. 4-24.
struct Gate {
    offset: u64,
    selector: u64,
    ist: u64,
    zero_4: u64, // bits 3-7 of byte 4
    typ: u64,
    zero_s: u64, // bit 12 of the attribute word
    dpl: u64,
    present: u64,
    reserved: u64,
}
fn decode(b: &[u8; 16]) -> Gate {
    let attr = le(b, 4, 2);
    Gate {
        offset: le(b, 0, 2) | (le(b, 6, 2) << 16) | (le(b, 8, 4) << 32),
        selector: le(b, 2, 2),
        ist: attr & 7,
        zero_4: (attr >> 3) & 0x1f,
        typ: (attr >> 8) & 0xf,
        zero_s: (attr >> 12) & 1,
        dpl: (attr >> 13) & 3,
        present: (attr >> 15) & 1,
        reserved: le(b, 12, 4),
    }
}
fn any_entry() -> E {
    Entry {
        pointer_low: kani::any(),
        options: EntryOptions { cs: SegmentSelector(kani::any()), bits: kani::any() },
        pointer_middle: kani::any(),
        pointer_high: kani::any(),
        reserved: kani::any(),
        phantom: PhantomData,
    }
}
/// Entry states reachable through the API: `reserved` is only ever written by `missing()` (0) and the
/// attribute word only through `minimal()` and the setters (bits 3-7 and 12 clear, bits 9-11 set).
fn reachable_entry() -> E {
    let e = any_entry();
    kani::assume(e.reserved == 0);
    kani::assume(e.options.bits & 0b0001_0000_1111_1000 == 0 && e.options.bits & 0b1110_0000_0000 == 0b1110_0000_0000);
    e
}
/// vectors `idt[v]` must refuse: reserved (15, 22-27, 31), error-code signature (8, 10-14, 17, 21, 29, 30),
/// diverging (8, 18) -- SDM vol.3A table 6-1
fn index_refused(v: u8) -> bool {
    matches!(v, 8 | 10..=15 | 17 | 18 | 21..=27 | 29..=31)
}

// ================================================================= layout
#[kani::proof]
fn c12_layout_sizes() {
    use core::mem::{align_of, size_of};
    vp!(C12, size_of::<E>() == 16, "a gate is not 16 bytes");
    vp!(C12, size_of::<Entry<PageFaultHandlerFunc>>() == 16 && size_of::<Entry<DivergingHandlerFuncWithErrCode>>() == 16, "typed gates are not 16 bytes");
    vp!(C12, size_of::<InterruptDescriptorTable>() == 4096, "the IDT is not 256 x 16 bytes");
    vp!(C12, align_of::<InterruptDescriptorTable>() == 16, "the IDT is not 16-byte aligned");
    vp!(C12, size_of::<InterruptStackFrameValue>() == 40, "interrupt stack frame is not 5 quadwords");
}

#[kani::proof]
fn c12_named_fields_at_16v() {
    let idt = InterruptDescriptorTable::new();
    let base = &idt as *const _ as usize;
    macro_rules! at {
        ($f:ident, $v:expr) => {
            vp!(C12, core::ptr::addr_of!(idt.$f) as usize == base + 16 * $v, "a named IDT field is not at 16 x its vector");
        };
    }
    at!(divide_error, 0);
    at!(debug, 1);
    at!(non_maskable_interrupt, 2);
    at!(breakpoint, 3);
    at!(overflow, 4);
    at!(bound_range_exceeded, 5);
    at!(invalid_opcode, 6);
    at!(device_not_available, 7);
    at!(double_fault, 8);
    at!(coprocessor_segment_overrun, 9);
    at!(invalid_tss, 10);
    at!(segment_not_present, 11);
    at!(stack_segment_fault, 12);
    at!(general_protection_fault, 13);
    at!(page_fault, 14);
    at!(reserved_1, 15);
    at!(x87_floating_point, 16);
    at!(alignment_check, 17);
    at!(machine_check, 18);
    at!(simd_floating_point, 19);
    at!(virtualization, 20);
    at!(cp_protection_exception, 21);
    at!(reserved_2, 22);
    at!(hv_injection_exception, 28);
    at!(vmm_communication_exception, 29);
    at!(security_exception, 30);
    at!(reserved_3, 31);
    at!(interrupts, 32);
    vp!(C12, core::mem::size_of_val(&idt.reserved_2) == 6 * 16 && core::mem::size_of_val(&idt.interrupts) == 224 * 16, "reserved_2 / interrupts have the wrong length");
}

#[kani::proof]
fn c12_index_u8_at_16v() {
    let mut idt = InterruptDescriptorTable::new();
    let base = &idt as *const _ as usize;
    let v: u8 = kani::any();
    kani::assume(!index_refused(v));
    vp!(C12, &idt[v] as *const E as usize == base + 16 * v as usize, "idt[v] is not at byte 16v");
    vp!(C12, &mut idt[v] as *mut E as usize == base + 16 * v as usize, "idt[v] (mutable) is not at byte 16v");
    kani::cover!(v == 255);
    kani::cover!(v == 9);
    kani::cover!(v == 28);
}

#[kani::proof]
fn c12_index_u8_refused_xpanic() {
    let mut idt = InterruptDescriptorTable::new();
    let v: u8 = kani::any();
    kani::assume(index_refused(v));
    kani::cover!(v == 8);
    kani::cover!(v == 31);
    kani::cover!(v == 18);
    if kani::any() {
        let _ = &idt[v];
    } else {
        let _ = &mut idt[v];
    }
    vp!(C12, false, "idt[v] accepted a reserved vector or one with a different handler signature");
}

/// Every `RangeBounds<u8>` form, symbolic bounds: where the slice starts and how long it is.
fn check_slice(idt: &mut InterruptDescriptorTable, form: u8, a: u8, b: u8) {
    let base = idt as *const _ as usize;
    // oracle (in usize, as vectors): [lower, upper)
    let (lower, upper): (usize, usize) = match form {
        0 | 1 | 12 | 13 => (a as usize, b as usize),             // a..b
        2 | 3 => (a as usize, 256),                              // a..
        4 | 5 | 14 => (a as usize, b as usize + 1),              // a..=b
        6 | 7 => (a as usize, b as usize),                       // (Included(a), Excluded(b))
        8 | 9 => (a as usize + 1, b as usize + 1),               // (Excluded(a), Included(b))
        _ => (a as usize + 1, 256),                              // (Excluded(a), Unbounded)
    };
    kani::assume(lower >= 32 && lower <= upper);
    let (ptr, len) = match form {
        0 => { let s = idt.slice(a..b); (s.as_ptr() as usize, s.len()) }
        1 => { let s = idt.slice_mut(&a..&b); (s.as_ptr() as usize, s.len()) }
        2 => { let s = idt.slice(a..); (s.as_ptr() as usize, s.len()) }
        3 => { let s = idt.slice_mut(&a..); (s.as_ptr() as usize, s.len()) }
        4 => { let s = idt.slice(a..=b); (s.as_ptr() as usize, s.len()) }
        5 => { let s = idt.slice_mut(&a..=&b); (s.as_ptr() as usize, s.len()) }
        6 => { let s = idt.slice((Included(a), Excluded(b))); (s.as_ptr() as usize, s.len()) }
        7 => { let s = idt.slice_mut((Included(&a), Excluded(&b))); (s.as_ptr() as usize, s.len()) }
        8 => { let s = idt.slice((Excluded(a), Included(b))); (s.as_ptr() as usize, s.len()) }
        9 => { let s = idt.slice_mut((Excluded(&a), Included(&b))); (s.as_ptr() as usize, s.len()) }
        10 => { let s = idt.slice((Excluded(a), Unbounded)); (s.as_ptr() as usize, s.len()) }
        11 => { let s = idt.slice_mut((Excluded(&a), Unbounded)); (s.as_ptr() as usize, s.len()) }
        12 => { let s = &idt[a..b]; (s.as_ptr() as usize, s.len()) }
        13 => { let s = &mut idt[&a..&b]; (s.as_ptr() as usize, s.len()) }
        _ => { let s = &idt[a..=b]; (s.as_ptr() as usize, s.len()) }
    };
    vp!(C12, ptr == base + 16 * lower, "range access does not start at byte 16 x first vector");
    vp!(C12, len == upper - lower, "range access has the wrong number of entries");
}

#[kani::proof]
fn c12_range_access_placement() {
    let mut idt = InterruptDescriptorTable::new();
    let form: u8 = kani::any();
    kani::assume(form < 15);
    let (a, b): (u8, u8) = (kani::any(), kani::any());
    check_slice(&mut idt, form, a, b);
    kani::cover!(form == 8 && a == 31);
    kani::cover!(form == 10 && a == 254);
    kani::cover!(form == 4 && b == 255);
    kani::cover!(form == 13);
}

#[kani::proof]
fn c12_range_access_below_32_xpanic() {
    let mut idt = InterruptDescriptorTable::new();
    let (a, b): (u8, u8) = (kani::any(), kani::any());
    let form: u8 = kani::any();
    kani::assume(form < 9);
    // first vector of the range is below 32
    let lower: usize = match form {
        0 | 1 | 2 | 3 => a as usize,
        4 | 5 => a as usize + 1, // Excluded(a)
        _ => 0,                  // ..b, ..=b, ..
    };
    kani::assume(lower < 32);
    kani::cover!(form == 4 && a == 30);
    kani::cover!(form == 8);
    match form {
        0 => { let _ = idt.slice(a..b); }
        1 => { let _ = idt.slice(a..=b); }
        2 => { let _ = idt.slice_mut(a..); }
        3 => { let _ = idt.slice((Included(&a), Unbounded)); }
        4 => { let _ = idt.slice((Excluded(a), Included(b))); }
        5 => { let _ = idt.slice_mut((Excluded(&a), Unbounded)); }
        6 => { let _ = idt.slice(..b); }
        7 => { let _ = &idt[..=b]; }
        _ => { let _ = &mut idt[..]; }
    }
    vp!(C12, false, "range access starting below vector 32 was not refused");
}

// ================================================================= gate encoding
#[kani::proof]
fn c12_set_handler_addr_encodes_gate() {
    let before = havoc();
    let mut e = reachable_entry();
    let a = any_canonical();
    let opts = unsafe { e.set_handler_addr(VirtAddr::new(a)) } as *mut EntryOptions as usize;
    let g = decode(&gate_bytes(&e));
    vp!(C12, g.offset == a, "gate offset is not the full 64-bit handler address");
    vp!(C12, g.selector == before.seg[isa::CS] as u64, "gate selector is not the current code segment");
    vp!(C12, g.present == 1, "gate is not present");
    vp!(C12, g.typ == 0xE, "gate type is not 64-bit interrupt gate");
    vp!(C12, g.dpl == 0, "gate DPL is not ring 0");
    vp!(C12, g.ist == 0, "gate requests a stack switch");
    vp!(C12, g.zero_4 == 0 && g.zero_s == 0 && g.reserved == 0, "gate reserved bits are not zero");
    vp!(C12, e.handler_addr().as_u64() == a, "handler address does not read back");
    vp!(C12, opts == core::ptr::addr_of!(e.options) as usize, "returned options are not this entry's options");
    vp!(C12, m().arch_eq(&before), "set_handler_addr changed machine state");
    kani::cover!(a >= UPPER_BASE);
    kani::cover!(a < HALF && a > 0xffff_ffff);
}

#[kani::proof]
fn c12_option_setter_programs() {
    let _ = havoc();
    let mut e = reachable_entry();
    let a = any_canonical();
    let cs0 = m().seg[isa::CS];
    let o = unsafe { e.set_handler_addr(VirtAddr::new(a)) };
    // model of the five independent fields
    let (mut present, mut typ, mut dpl, mut ist, mut sel) = (1u64, 0xEu64, 0u64, 0u64, cs0 as u64);
    let mut step = 0;
    while step < 3 {
        match kani::any::<u8>() % 5 {
            0 => {
                let p: bool = kani::any();
                o.set_present(p);
                present = p as u64;
            }
            1 => {
                let d: bool = kani::any();
                o.disable_interrupts(d);
                typ = if d { 0xE } else { 0xF }; // interrupt gate clears IF, trap gate does not
            }
            2 => {
                let r = PrivilegeLevel::from_u16(kani::any::<u16>() % 4);
                o.set_privilege_level(r);
                dpl = r as u64;
            }
            3 => {
                let i: u16 = kani::any();
                kani::assume(i <= 6);
                unsafe { o.set_stack_index(i) };
                ist = i as u64 + 1;
            }
            _ => {
                let s = SegmentSelector(kani::any());
                unsafe { o.set_code_selector(s) };
                sel = s.0 as u64;
            }
        }
        step += 1;
    }
    let g = decode(&gate_bytes(&e));
    vp!(C12, g.present == present, "present bit differs from the setter history");
    vp!(C12, g.typ == typ, "gate type differs from the setter history");
    vp!(C12, g.dpl == dpl, "DPL differs from the setter history");
    vp!(C12, g.ist == ist, "IST field is not index+1 of the last set_stack_index");
    vp!(C12, g.selector == sel, "selector differs from the setter history");
    vp!(C12, g.offset == a && e.handler_addr().as_u64() == a, "an option setter changed the handler address");
    vp!(C12, g.zero_4 == 0 && g.zero_s == 0 && g.reserved == 0, "an option setter set a reserved bit");
    kani::cover!(ist == 7 && dpl == 3 && typ == 0xF);
    kani::cover!(present == 0);
}

#[kani::proof]
fn c12t_option_setter_programs_6() {
    let _ = havoc();
    let mut e = reachable_entry();
    let a = any_canonical();
    let cs0 = m().seg[isa::CS];
    let o = unsafe { e.set_handler_addr(VirtAddr::new(a)) };
    // model of the five independent fields
    let (mut present, mut typ, mut dpl, mut ist, mut sel) = (1u64, 0xEu64, 0u64, 0u64, cs0 as u64);
    let mut step = 0;
    while step < 6 {
        match kani::any::<u8>() % 5 {
            0 => {
                let p: bool = kani::any();
                o.set_present(p);
                present = p as u64;
            }
            1 => {
                let d: bool = kani::any();
                o.disable_interrupts(d);
                typ = if d { 0xE } else { 0xF }; // interrupt gate clears IF, trap gate does not
            }
            2 => {
                let r = PrivilegeLevel::from_u16(kani::any::<u16>() % 4);
                o.set_privilege_level(r);
                dpl = r as u64;
            }
            3 => {
                let i: u16 = kani::any();
                kani::assume(i <= 6);
                unsafe { o.set_stack_index(i) };
                ist = i as u64 + 1;
            }
            _ => {
                let s = SegmentSelector(kani::any());
                unsafe { o.set_code_selector(s) };
                sel = s.0 as u64;
            }
        }
        step += 1;
    }
    let g = decode(&gate_bytes(&e));
    vp!(C12, g.present == present, "present bit differs from the setter history");
    vp!(C12, g.typ == typ, "gate type differs from the setter history");
    vp!(C12, g.dpl == dpl, "DPL differs from the setter history");
    vp!(C12, g.ist == ist, "IST field is not index+1 of the last set_stack_index");
    vp!(C12, g.selector == sel, "selector differs from the setter history");
    vp!(C12, g.offset == a && e.handler_addr().as_u64() == a, "an option setter changed the handler address");
    vp!(C12, g.zero_4 == 0 && g.zero_s == 0 && g.reserved == 0, "an option setter set a reserved bit");
    kani::cover!(ist == 7 && dpl == 3 && typ == 0xF);
    kani::cover!(present == 0);
}

#[kani::proof]
fn c12_set_stack_index_too_big_xpanic() {
    let mut o = EntryOptions::minimal();
    let i: u16 = kani::any();
    kani::assume(i >= 7);
    kani::cover!(i == 7);
    unsafe { o.set_stack_index(i) };
    vp!(C12, false, "set_stack_index accepted an index above 6");
}

#[kani::proof]
fn c12_missing_and_reset() {
    let g = decode(&gate_bytes(&E::missing()));
    vp!(C12, g.present == 0, "missing() gate is present");
    vp!(C12, g.typ & 0xE == 0xE, "missing() gate lacks the must-be-one type bits");
    vp!(C12, g.offset == 0 && g.selector == 0 && g.ist == 0 && g.dpl == 0 && g.zero_4 == 0 && g.zero_s == 0 && g.reserved == 0, "missing() gate has other bits set");
    // an arbitrary table, reset: every one of the 256 gates is a missing gate
    let mut idt = InterruptDescriptorTable::new();
    let v: usize = kani::any();
    kani::assume(v < 256);
    let p = &mut idt as *mut InterruptDescriptorTable as *mut E;
    unsafe { *p.add(v) = any_entry() };
    idt.reset();
    let b = gate_bytes(unsafe { &*p.add(v) });
    vp!(C12, b == gate_bytes(&E::missing()), "reset() did not restore a non-present gate");
    let d = InterruptDescriptorTable::default();
    let q = &d as *const InterruptDescriptorTable as *const E;
    vp!(C12, gate_bytes(unsafe { &*q.add(v) }) == gate_bytes(&E::missing()), "new()/default() table has a non-missing gate");
    kani::cover!(v == 255);
    kani::cover!(v == 8);
}

#[kani::proof]
fn c03_handler_addr_canonical() {
    let e = any_entry();
    let a = e.handler_addr().as_u64();
    vp!(C03, is_canonical(a), "Entry::handler_addr returned a non-canonical address");
    let raw = e.pointer_low as u64 + ((e.pointer_middle as u64) << 16) + ((e.pointer_high as u64) << 32);
    vp!(C03, a == sign_extend48(raw), "Entry::handler_addr is not the truncated gate offset");
    kani::cover!(raw >> 48 != 0 && raw >> 48 != 0xffff);
}

// ================================================================= load
fn stub_virt_new(addr: u64) -> VirtAddr {
    // S-addr: CBMC object addresses carry the object number in bits 48-63 and are never canonical;
    // the real constructor is verified for all 2^64 inputs in C03
    unsafe { VirtAddr::new_unsafe(addr) }
}

#[kani::proof]
#[kani::stub(crate::addr::VirtAddr::new, stub_virt_new)]
fn c12_load_hands_cpu_own_address() {
    let before = havoc();
    let idt = InterruptDescriptorTable::new();
    unsafe { idt.load_unsafe() };
    let mut want = before;
    want.idtr_base = &idt as *const _ as u64;
    want.idtr_limit = 4095;
    vp!(C12, m().arch_eq(&want) && m().clean(), "load did not hand the CPU the table's own address with limit 4095");
    vp!(C12, m().count(isa::EV_LIDT) == 1 && m().nlog == 1, "load is not exactly one lidt");
    kani::cover!(true);
}
