//! C13 -- set_general_handler (child module of `idt`).  Partial by design: what the CPU pushes and
//! what the `extern "x86-interrupt"` prologue/epilogue does is LLVM code generation and outside
//! anything Kani executes; see DESIGN.md C13.
use super::*;
use crate::verif_isa as isa;
use crate::verif_isa::{havoc, m};
use crate::verif_oracle::*;

type E = Entry<HandlerFunc>;

fn stub_virt_new(addr: u64) -> VirtAddr {
    unsafe { VirtAddr::new_unsafe(addr) }
}
fn gate_bytes_at(idt: &InterruptDescriptorTable, v: usize) -> [u8; 16] {
    unsafe { core::ptr::read((idt as *const InterruptDescriptorTable as *const [u8; 16]).add(v)) }
}
fn present(b: &[u8; 16]) -> bool {
    b[5] & 0x80 != 0
}
fn offset(b: &[u8; 16]) -> u64 {
    let mut v = 0u64;
    v |= b[0] as u64 | (b[1] as u64) << 8 | (b[6] as u64) << 16 | (b[7] as u64) << 24;
    let mut i = 0;
    while i < 4 {
        v |= (b[8 + i] as u64) << (32 + 8 * i);
        i += 1;
    }
    v
}
/// SDM vol.3A table 6-1: vectors without a definition (Intel reserved)
fn reserved_vector(v: u8) -> bool {
    matches!(v, 15 | 22..=27 | 31)
}
/// ... and the vectors that push an error code
fn has_error_code(v: u8) -> bool {
    matches!(v, 8 | 10..=14 | 17 | 21 | 29 | 30)
}

static mut SEEN_CALLS: u32 = 0;
static mut SEEN_INDEX: u8 = 0;
static mut SEEN_ERR: Option<u64> = None;
static mut SEEN_FRAME: [u64; 5] = [0; 5];
fn general(frame: InterruptStackFrame, index: u8, error_code: Option<u64>) {
    unsafe {
        SEEN_CALLS += 1;
        SEEN_INDEX = index;
        SEEN_ERR = error_code;
        SEEN_FRAME = [
            frame.instruction_pointer.as_u64(),
            frame.code_segment.0 as u64,
            frame.cpu_flags.bits(),
            frame.stack_pointer.as_u64(),
            frame.stack_segment.0 as u64,
        ];
    }
}

/// (a) present-set: exactly the non-reserved vectors of the range become present, others untouched.
#[kani::proof]
#[kani::stub(crate::addr::VirtAddr::new, stub_virt_new)]
fn c13_present_set_inclusive_range() {
    let _ = havoc();
    let mut idt = InterruptDescriptorTable::new();
    // arbitrary prior contents of one witness gate
    let w: u8 = kani::any();
    let prior: [u8; 16] = kani::any();
    unsafe { core::ptr::write((&mut idt as *mut InterruptDescriptorTable as *mut [u8; 16]).add(w as usize), prior) };
    let (lo, hi): (u8, u8) = (kani::any(), kani::any());
    crate::set_general_handler!(&mut idt, general, lo..=hi);
    let after = gate_bytes_at(&idt, w as usize);
    let selected = lo <= w && w <= hi && !reserved_vector(w);
    if selected {
        vp!(C13, present(&after), "a non-reserved vector inside the range is not present");
        vp!(C13, after[5] & 0x1f == 0x0e && after[4] == 0 && after[5] & 0x60 == 0, "installed gate is not a ring-0 interrupt gate without stack switch");
    } else {
        vp!(C13, after == prior, "an entry outside the range (or a reserved vector) was modified");
    }
    kani::cover!(selected && w == 255);
    kani::cover!(selected && w == 8);
    kani::cover!(!selected && lo <= w && w <= hi);
    kani::cover!(lo > hi);
}

static mut EXPECT_INDEX: u8 = 0;
static mut EXPECT_ERR: Option<u64> = None;
static mut EXPECT_FRAME: [u64; 5] = [0; 5];
/// general handler used by the delivery harnesses: checks its arguments at the moment it is called
/// (vectors 8 and 18 never return from their stub, so nothing can be checked afterwards)
fn checking_general(frame: InterruptStackFrame, index: u8, error_code: Option<u64>) {
    unsafe {
        SEEN_CALLS += 1;
        vp!(C13, SEEN_CALLS == 1, "general handler called more than once for one delivery");
        vp!(C13, index == EXPECT_INDEX, "general handler was given a different vector number than the entered gate");
        vp!(C13, error_code == EXPECT_ERR, "general handler was given the wrong error code (present exactly on error-code vectors, value unchanged)");
        let got = [
            frame.instruction_pointer.as_u64(),
            frame.code_segment.0 as u64,
            frame.cpu_flags.bits(),
            frame.stack_pointer.as_u64(),
            frame.stack_segment.0 as u64,
        ];
        vp!(C13, got == EXPECT_FRAME, "general handler was given different frame contents");
    }
}
fn any_frame() -> InterruptStackFrame {
    // the expectation is taken from the constructor's *arguments* (instruction pointer, code segment, flags,
    // stack pointer, stack segment), not read back from the constructed value
    let (ip, cs, fl, sp, ss): (u64, u16, u64, u64, u16) = (any_canonical(), kani::any(), kani::any(), any_canonical(), kani::any());
    let f = InterruptStackFrame::new(
        unsafe { VirtAddr::new_unsafe(ip) },
        SegmentSelector(cs),
        RFlags::from_bits_retain(fl),
        unsafe { VirtAddr::new_unsafe(sp) },
        SegmentSelector(ss),
    );
    unsafe {
        EXPECT_FRAME = [ip, cs as u64, fl, sp, ss as u64];
    }
    vp!(C13, f.instruction_pointer.as_u64() == ip && f.code_segment.0 == cs && f.cpu_flags.bits() == fl && f.stack_pointer.as_u64() == sp && f.stack_segment.0 == ss,
        "InterruptStackFrame::new does not store its arguments in the fields of the same name");
    f
}

/// Enter the installed gate of vector `v` (full-table install) with an arbitrary hardware-format frame
/// (and an arbitrary error code on the error-code vectors).  The gate's handler address is turned
/// back into a function pointer: int -> ptr is the identity in CBMC, and its function-pointer
/// removal dispatches over every address-taken function of that signature.
fn deliver(v: u8) {
    let _ = havoc();
    let mut idt = InterruptDescriptorTable::new();
    crate::set_general_handler!(&mut idt, checking_general);
    let b = gate_bytes_at(&idt, v as usize);
    vp!(C13, present(&b), "vector not present after full-table install");
    let addr = offset(&b) as usize;
    let ec: u64 = kani::any();
    unsafe {
        EXPECT_INDEX = v;
        EXPECT_ERR = if has_error_code(v) { Some(ec) } else { None };
    }
    let frame = any_frame();
    if v == 14 {
        let f: extern "C" fn(InterruptStackFrame, PageFaultErrorCode) = unsafe { core::mem::transmute(addr) };
        f(frame, PageFaultErrorCode::from_bits_retain(ec));
    } else if has_error_code(v) {
        let f: extern "C" fn(InterruptStackFrame, u64) = unsafe { core::mem::transmute(addr) };
        f(frame, ec);
    } else {
        let f: extern "C" fn(InterruptStackFrame) = unsafe { core::mem::transmute(addr) };
        f(frame);
    }
    vp!(C13, unsafe { SEEN_CALLS } == 1, "general handler not called exactly once");
}

macro_rules! deliver_concrete {
    ($name:ident, $v:expr) => {
        #[kani::proof]
        #[kani::stub(crate::addr::VirtAddr::new, stub_virt_new)]
        fn $name() {
            deliver($v);
            kani::cover!(true);
        }
    };
}
// quick tier: one representative of every stub shape and the table corners
deliver_concrete!(c13_deliver_v0_nr, 0);
deliver_concrete!(c13_deliver_v9_nr, 9);
deliver_concrete!(c13_deliver_v32_nr, 32);
deliver_concrete!(c13_deliver_v255_nr, 255);
deliver_concrete!(c13_deliver_v11_errcode_nr, 11);
deliver_concrete!(c13_deliver_v12_errcode_nr, 12);
deliver_concrete!(c13_deliver_v14_pagefault_nr, 14);
// every other vector that pushes an error code (SDM vol.3A table 6-1): #TS, #GP, #AC, #CP, #VC, #SX
deliver_concrete!(c13_deliver_v10_errcode_nr, 10);
deliver_concrete!(c13_deliver_v13_errcode_nr, 13);
deliver_concrete!(c13_deliver_v17_errcode_nr, 17);
deliver_concrete!(c13_deliver_v21_errcode_nr, 21);
deliver_concrete!(c13_deliver_v29_errcode_nr, 29);
deliver_concrete!(c13_deliver_v30_errcode_nr, 30);

/// Vectors 8 and 18: the stub must call the handler and then never return (it panics).
#[kani::proof]
#[kani::stub(crate::addr::VirtAddr::new, stub_virt_new)]
fn c13_deliver_v8_diverges_nr_xpanic() {
    kani::cover!(true);
    deliver(8);
    vp!(C13, false, "double-fault stub returned");
}
#[kani::proof]
#[kani::stub(crate::addr::VirtAddr::new, stub_virt_new)]
fn c13_deliver_v18_diverges_nr_xpanic() {
    kani::cover!(true);
    deliver(18);
    vp!(C13, false, "machine-check stub returned");
}

/// thorough tier: every non-reserved returning vector, symbolically
#[kani::proof]
#[kani::stub(crate::addr::VirtAddr::new, stub_virt_new)]
fn c13t_deliver_all_returning_vectors_nr() {
    let v: u8 = kani::any();
    kani::assume(!reserved_vector(v) && v != 8 && v != 18);
    deliver(v);
    kani::cover!(v == 255);
    kani::cover!(v == 30);
    kani::cover!(v == 14);
}

/// (c) iretq on a frame value transfers to exactly the frame's instruction pointer, code segment,
/// flags, stack pointer and stack segment.  The block is `noreturn`, so the comparison is made by the
/// ISA model at the moment IRETQ pops the frame (`iret_expect`), after which the path ends.
#[kani::proof]
fn c13_iretq_pops_the_frame_nr() {
    let _ = havoc();
    let f = any_frame();
    m().iret_expect = unsafe { EXPECT_FRAME };
    m().iret_expect_on = true;
    kani::cover!(true);
    unsafe { f.iretq() }
}

/// (d) frame layout: the five quadwords in hardware push order (SDM vol.3A fig. 6-9)
#[kani::proof]
fn c13_frame_layout() {
    let f = any_frame();
    let base = &f as *const InterruptStackFrame as usize;
    vp!(C13, core::ptr::addr_of!(f.0.instruction_pointer) as usize - base == 0, "RIP is not at offset 0 of the frame");
    vp!(C13, core::ptr::addr_of!(f.0.code_segment) as usize - base == 8, "CS is not at offset 8 of the frame");
    vp!(C13, core::ptr::addr_of!(f.0.cpu_flags) as usize - base == 16, "RFLAGS is not at offset 16 of the frame");
    vp!(C13, core::ptr::addr_of!(f.0.stack_pointer) as usize - base == 24, "RSP is not at offset 24 of the frame");
    vp!(C13, core::ptr::addr_of!(f.0.stack_segment) as usize - base == 32, "SS is not at offset 32 of the frame");
    vp!(C13, core::mem::size_of::<InterruptStackFrame>() == 40, "frame is not 40 bytes");
}
