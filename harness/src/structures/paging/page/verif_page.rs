//! C03 / C04 / C05 / C06 / C07 obligations on `Page<S>`, `PageRange<S>`, `PageRangeInclusive<S>`
//! (child module of `page`: builds pages through the private fields, independent of the
//! constructors under test). One harness per concrete page size (4 KiB, 2 MiB, 1 GiB).
use super::*;
use crate::structures::paging::page_table::PageTableLevel;
use crate::structures::paging::PageTableIndex;
use crate::verif_oracle::*;
use core::iter::Step;

fn virt(a: u64) -> VirtAddr {
    unsafe { VirtAddr::new_unsafe(a) }
}
fn any_page<S: PageSize>() -> Page<S> {
    let a = any_canonical();
    kani::assume(a % S::SIZE == 0);
    Page { start_address: virt(a), size: PhantomData }
}
fn page_at<S: PageSize>(a: u64) -> Page<S> {
    Page { start_address: virt(a), size: PhantomData }
}
fn valid_page<S: PageSize>(p: Page<S>) -> bool {
    let a = p.start_address.as_u64();
    is_canonical(a) && a % S::SIZE == 0
}
fn any_index() -> PageTableIndex {
    let i: u16 = kani::any();
    kani::assume(i < 512);
    PageTableIndex::new_truncate(i)
}
/// position of a page in the ascending sequence of all canonical pages of its size
fn prank<S: PageSize>(p: Page<S>) -> u128 {
    rank(p.start_address.as_u64()) / S::SIZE as u128
}
fn same_half(a: u64, b: u64) -> bool {
    (a < HALF) == (b < HALF)
}

macro_rules! per_size {
    ($mac:ident) => {
        $mac!(s4k, Size4KiB);
        $mac!(s2m, Size2MiB);
        $mac!(s1g, Size1GiB);
    };
}

// ================================================================= C06 + C03: containment / construction
macro_rules! containment {
    ($m:ident, $S:ty) => {
        mod $m {
            use super::*;
            #[kani::proof]
            fn c06_page_containing_and_from_start() {
                let a = any_canonical();
                let p = Page::<$S>::containing_address(virt(a));
                let s = p.start_address().as_u64();
                vp!(C06, s % <$S>::SIZE == 0, "containing page does not start at a size-aligned address");
                vp!(C06, s <= a && a - s < <$S>::SIZE, "containing page does not contain the address");
                vp!(C03, is_canonical(s), "Page start address not canonical");
                vp!(C06, p.size() == <$S>::SIZE && Page::<$S>::SIZE == <$S>::SIZE, "size() wrong");
                match Page::<$S>::from_start_address(virt(a)) {
                    Ok(q) => {
                        vp!(C06, a % <$S>::SIZE == 0, "from_start_address accepted an unaligned address");
                        vp!(C06, q.start_address().as_u64() == a, "from_start_address changed the address");
                    }
                    Err(_) => vp!(C06, a % <$S>::SIZE != 0, "from_start_address rejected an aligned address"),
                }
                let q = unsafe { Page::<$S>::from_start_address_unchecked(virt(s)) };
                vp!(C06, q == p, "from_start_address_unchecked differs");
                kani::cover!(a >= UPPER_BASE && a % <$S>::SIZE != 0);
                kani::cover!(a % <$S>::SIZE == 0 && a > 0);
            }
        }
    };
}
mod c06 {
    use super::*;
    per_size!(containment);
}

// ================================================================= C04: page <-> indices
macro_rules! page_indices {
    ($m:ident, $S:ty) => {
        mod $m {
            use super::*;
            #[kani::proof]
            fn c04_page_upper_indices() {
                let p = any_page::<$S>();
                let a = p.start_address.as_u64();
                vp!(C04, u64::from(p.p4_index()) == field(a, 39, 9), "Page::p4_index is not bits 39-47");
                vp!(C04, u64::from(p.p3_index()) == field(a, 30, 9), "Page::p3_index is not bits 30-38");
                let l: u8 = kani::any();
                kani::assume(l >= 1 && l <= 4);
                let (level, lo) = match l {
                    1 => (PageTableLevel::One, 12),
                    2 => (PageTableLevel::Two, 21),
                    3 => (PageTableLevel::Three, 30),
                    _ => (PageTableLevel::Four, 39),
                };
                vp!(C04, u64::from(p.page_table_index(level)) == field(a, lo, 9), "Page::page_table_index(level) wrong");
                kani::cover!(field(a, 39, 9) >= 256 && l == 4);
            }
        }
    };
}
mod c04 {
    use super::*;
    per_size!(page_indices);

    #[kani::proof]
    fn c04_page_p2_p1_indices() {
        let p = any_page::<Size4KiB>();
        let a = p.start_address.as_u64();
        vp!(C04, u64::from(p.p2_index()) == field(a, 21, 9), "Page<4K>::p2_index is not bits 21-29");
        vp!(C04, u64::from(p.p1_index()) == field(a, 12, 9), "Page<4K>::p1_index is not bits 12-20");
        let q = any_page::<Size2MiB>();
        vp!(C04, u64::from(q.p2_index()) == field(q.start_address.as_u64(), 21, 9), "Page<2M>::p2_index is not bits 21-29");
        kani::cover!(u64::from(p.p1_index()) == 511);
    }

    #[kani::proof]
    fn c04_from_indices_4k_inverse_unique() {
        let (i4, i3, i2, i1) = (any_index(), any_index(), any_index(), any_index());
        let p = Page::from_page_table_indices(i4, i3, i2, i1);
        let s = p.start_address.as_u64();
        let want = sign_extend48((u64::from(i4) << 39) + (u64::from(i3) << 30) + (u64::from(i2) << 21) + (u64::from(i1) << 12));
        vp!(C04, s == want, "from_page_table_indices is not the sign-extended concatenation");
        vp!(C04, valid_page(p), "from_page_table_indices result not a canonical aligned page");
        vp!(C04, p.p4_index() == i4 && p.p3_index() == i3 && p.p2_index() == i2 && p.p1_index() == i1, "indices do not read back");
        // uniqueness: any page with these indices is this page
        let q = any_page::<Size4KiB>();
        let b = q.start_address.as_u64();
        if field(b, 39, 9) == u64::from(i4) && field(b, 30, 9) == u64::from(i3) && field(b, 21, 9) == u64::from(i2) && field(b, 12, 9) == u64::from(i1) {
            vp!(C04, q == p, "two different 4KiB pages have the same indices");
        }
        kani::cover!(u16::from(i4) >= 256);
        kani::cover!(q == p);
    }

    #[kani::proof]
    fn c04_from_indices_2m_inverse_unique() {
        let (i4, i3, i2) = (any_index(), any_index(), any_index());
        let p = Page::from_page_table_indices_2mib(i4, i3, i2);
        let s = p.start_address.as_u64();
        let want = sign_extend48((u64::from(i4) << 39) + (u64::from(i3) << 30) + (u64::from(i2) << 21));
        vp!(C04, s == want, "from_page_table_indices_2mib is not the sign-extended concatenation");
        vp!(C04, valid_page(p), "from_page_table_indices_2mib result not a canonical aligned page");
        vp!(C04, p.p4_index() == i4 && p.p3_index() == i3 && p.p2_index() == i2, "2MiB indices do not read back");
        let q = any_page::<Size2MiB>();
        let b = q.start_address.as_u64();
        if field(b, 39, 9) == u64::from(i4) && field(b, 30, 9) == u64::from(i3) && field(b, 21, 9) == u64::from(i2) {
            vp!(C04, q == p, "two different 2MiB pages have the same indices");
        }
        kani::cover!(u16::from(i4) >= 256);
    }

    #[kani::proof]
    fn c04_from_indices_1g_inverse_unique() {
        let (i4, i3) = (any_index(), any_index());
        let p = Page::from_page_table_indices_1gib(i4, i3);
        let s = p.start_address.as_u64();
        let want = sign_extend48((u64::from(i4) << 39) + (u64::from(i3) << 30));
        vp!(C04, s == want, "from_page_table_indices_1gib is not the sign-extended concatenation");
        vp!(C04, valid_page(p), "from_page_table_indices_1gib result not a canonical aligned page");
        vp!(C04, p.p4_index() == i4 && p.p3_index() == i3, "1GiB indices do not read back");
        let q = any_page::<Size1GiB>();
        let b = q.start_address.as_u64();
        if field(b, 39, 9) == u64::from(i4) && field(b, 30, 9) == u64::from(i3) {
            vp!(C04, q == p, "two different 1GiB pages have the same indices");
        }
        kani::cover!(u16::from(i4) >= 256);
    }
}

// ================================================================= C05: stepping pages
macro_rules! page_step {
    ($m:ident, $S:ty) => {
        mod $m {
            use super::*;
            const COUNT: u128 = SPACE / <$S>::SIZE as u128;
            #[kani::proof]
            fn c05_page_forward_backward_oracle() {
                let p = any_page::<$S>();
                let n: usize = kani::any();
                let pos = prank(p) + n as u128;
                let want = if pos < COUNT { Some(unrank(pos * <$S>::SIZE as u128)) } else { None };
                let got = Step::forward_checked(p, n);
                vp!(C05, got.map(|r| r.start_address.as_u64()) == want, "Page forward_checked differs from oracle");
                let wantb = if prank(p) >= n as u128 { Some(unrank((prank(p) - n as u128) * <$S>::SIZE as u128)) } else { None };
                let gotb = Step::backward_checked(p, n);
                vp!(C05, gotb.map(|r| r.start_address.as_u64()) == wantb, "Page backward_checked differs from oracle");
                if let Some(r) = got {
                    vp!(C03, valid_page(r), "Page forward_checked produced an invalid page");
                    vp!(C05, Step::backward_checked(r, n) == Some(p), "Page backward does not undo forward");
                    vp!(C05, Step::steps_between(&p, &r) == (n, Some(n)), "Page steps_between does not measure forward");
                }
                if let Some(r) = gotb {
                    vp!(C03, valid_page(r), "Page backward_checked produced an invalid page");
                    vp!(C05, Step::forward_checked(r, n) == Some(p), "Page forward does not undo backward");
                }
                kani::cover!(want.is_some() && p.start_address.as_u64() < HALF && want.unwrap() >= UPPER_BASE);
                kani::cover!(want.is_none() && (n as u128) < COUNT);
                kani::cover!((n as u128) > (1u128 << 60));
                kani::cover!(wantb.is_some() && p.start_address.as_u64() >= UPPER_BASE && wantb.unwrap() < HALF);
            }

            #[kani::proof]
            fn c05_page_steps_between_oracle() {
                let s = any_page::<$S>();
                let e = any_page::<$S>();
                let want = if prank(e) >= prank(s) {
                    let d = (prank(e) - prank(s)) as usize;
                    (d, Some(d))
                } else {
                    (0, None)
                };
                vp!(C05, Step::steps_between(&s, &e) == want, "Page steps_between differs from oracle");
                if let (_, Some(d)) = want {
                    vp!(C05, Step::forward_checked(s, d) == Some(e), "Page forward(steps_between) does not reach the end");
                }
                kani::cover!(s.start_address.as_u64() < HALF && e.start_address.as_u64() >= UPPER_BASE);
                kani::cover!(want.1.is_none());
            }
        }
    };
}
mod c05 {
    use super::*;
    per_size!(page_step);
}

// ================================================================= C07: operators (debug profile) and ranges
macro_rules! page_ops {
    ($m:ident, $S:ty) => {
        mod $m {
            use super::*;
            const SZ: u128 = <$S>::SIZE as u128;

            #[kani::proof]
            fn c07_page_ops_exact_mpanic() {
                let p = any_page::<$S>();
                let a = p.start_address.as_u64();
                let n: u64 = kani::any();
                match kani::any::<u8>() {
                    0 => {
                        let r = p + n;
                        vp!(C07, r.start_address.as_u64() as u128 == a as u128 + n as u128 * SZ, "Page + u64 is not exact");
                        vp!(C03, valid_page(r), "Page + u64 produced an invalid page");
                        kani::cover!(n > 0);
                    }
                    1 => {
                        let r = p - n;
                        vp!(C07, r.start_address.as_u64() as i128 == a as i128 - (n as u128 * SZ) as i128, "Page - u64 is not exact");
                        vp!(C03, valid_page(r), "Page - u64 produced an invalid page");
                        kani::cover!(n > 0);
                    }
                    2 => {
                        let mut r = p;
                        r += n;
                        vp!(C07, r.start_address.as_u64() as u128 == a as u128 + n as u128 * SZ, "Page += u64 is not exact");
                        vp!(C03, valid_page(r), "Page += u64 produced an invalid page");
                    }
                    3 => {
                        let mut r = p;
                        r -= n;
                        vp!(C07, r.start_address.as_u64() as i128 == a as i128 - (n as u128 * SZ) as i128, "Page -= u64 is not exact");
                        vp!(C03, valid_page(r), "Page -= u64 produced an invalid page");
                    }
                    _ => {
                        let q = any_page::<$S>();
                        let d = p - q;
                        vp!(C07, d as i128 * SZ as i128 == a as i128 - q.start_address.as_u64() as i128, "Page - Page is not exact");
                        kani::cover!(d > 0);
                    }
                }
            }

            /// Induction step for exclusive ranges: from ANY range with both bounds in one half,
            /// one `next()` yields `start`, shortens the range by exactly one and stays in the half.
            #[kani::proof]
            fn c07_page_range_step() {
                let s = any_page::<$S>();
                let e = any_page::<$S>();
                let (sa, ea) = (s.start_address.as_u64(), e.start_address.as_u64());
                kani::assume(same_half(sa, ea));
                let mut r = Page::range(s, e);
                let n = if ea > sa { ((ea - sa) as u128 / SZ) as u64 } else { 0 };
                vp!(C07, r.len() == n, "PageRange::len is not the number of pages");
                vp!(C07, r.is_empty() == (n == 0), "PageRange::is_empty disagrees with len");
                vp!(C07, r.size() as u128 == n as u128 * SZ, "PageRange::size is not len x page size");
                let item = r.next();
                if n == 0 {
                    vp!(C07, item.is_none(), "empty PageRange yielded an item");
                    vp!(C07, r.len() == 0, "empty PageRange changed length");
                } else {
                    vp!(C07, item == Some(s), "PageRange did not yield its start");
                    vp!(C07, r.len() == n - 1, "PageRange::next did not shorten the range by one");
                    vp!(C07, r.end == e, "PageRange::next moved the end");
                    vp!(C07, r.start.start_address.as_u64() as u128 == sa as u128 + SZ, "PageRange::next did not advance by one page");
                    vp!(C07, same_half(r.start.start_address.as_u64(), ea), "PageRange left its half");
                }
                kani::cover!(n > 1);
                kani::cover!(n == 1);
                kani::cover!(n == 0 && ea < sa);
                kani::cover!(sa >= UPPER_BASE && n > 0);
            }

            /// Induction step for inclusive ranges, including ranges ending at the last page of
            /// either half. After the last item the range must be empty (whatever its bounds are).
            #[kani::proof]
            fn c07_page_range_inclusive_step() {
                let s = any_page::<$S>();
                let e = any_page::<$S>();
                let (sa, ea) = (s.start_address.as_u64(), e.start_address.as_u64());
                kani::assume(same_half(sa, ea));
                let mut r = Page::range_inclusive(s, e);
                let n = if ea >= sa { ((ea - sa) as u128 / SZ) as u64 + 1 } else { 0 };
                vp!(C07, r.len() == n, "PageRangeInclusive::len is not the number of pages");
                vp!(C07, r.is_empty() == (n == 0), "PageRangeInclusive::is_empty disagrees with len");
                vp!(C07, r.size() as u128 == n as u128 * SZ, "PageRangeInclusive::size is not len x page size");
                let item = r.next();
                if n == 0 {
                    vp!(C07, item.is_none(), "empty PageRangeInclusive yielded an item");
                } else {
                    vp!(C07, item == Some(s), "PageRangeInclusive did not yield its start");
                    vp!(C07, r.len() == n - 1, "PageRangeInclusive::next did not shorten the range by one");
                    if n > 1 {
                        vp!(C07, r.end == e && r.start.start_address.as_u64() as u128 == sa as u128 + SZ, "PageRangeInclusive::next did not advance start by one page");
                        vp!(C07, same_half(r.start.start_address.as_u64(), ea), "PageRangeInclusive left its half");
                    } else {
                        vp!(C07, r.next().is_none(), "exhausted PageRangeInclusive yielded again");
                    }
                }
                kani::cover!(n > 1);
                kani::cover!(n == 1 && ea as u128 + SZ == 1u128 << 64);
                kani::cover!(n == 1 && ea as u128 + SZ == HALF as u128);
                kani::cover!(n == 1 && ea == 0);
                kani::cover!(n == 1 && ea == UPPER_BASE);
                kani::cover!(n == 0);
            }

            /// Cross-check of the induction: complete iteration of every range with <= 4 items.
            #[kani::proof]
            #[kani::unwind(7)]
            fn c07_page_range_full_iteration_le4() {
                let s = any_page::<$S>();
                let e = any_page::<$S>();
                let (sa, ea) = (s.start_address.as_u64(), e.start_address.as_u64());
                kani::assume(same_half(sa, ea));
                let inclusive: bool = kani::any();
                let n = if inclusive {
                    if ea >= sa { ((ea - sa) as u128 / SZ) + 1 } else { 0 }
                } else if ea > sa { (ea - sa) as u128 / SZ } else { 0 };
                kani::assume(n <= 4);
                let mut count: u128 = 0;
                let mut expect = sa as u128;
                if inclusive {
                    let r = Page::range_inclusive(s, e);
                    vp!(C07, r.len() as u128 == n, "inclusive len differs from oracle");
                    for p in r {
                        vp!(C07, p.start_address.as_u64() as u128 == expect, "inclusive iteration not ascending page by page");
                        expect += SZ;
                        count += 1;
                    }
                } else {
                    let r = Page::range(s, e);
                    vp!(C07, r.len() as u128 == n, "exclusive len differs from oracle");
                    for p in r {
                        vp!(C07, p.start_address.as_u64() as u128 == expect, "exclusive iteration not ascending page by page");
                        expect += SZ;
                        count += 1;
                    }
                }
                vp!(C07, count == n, "range yielded a different number of items than len()");
                kani::cover!(n == 4 && inclusive);
                kani::cover!(n == 4 && !inclusive);
                kani::cover!(n == 2 && inclusive && ea as u128 + SZ == 1u128 << 64);
            }

            #[kani::proof]
            #[kani::unwind(11)]
            fn c07t_page_range_full_iteration_le8() {
                let s = any_page::<$S>();
                let e = any_page::<$S>();
                let (sa, ea) = (s.start_address.as_u64(), e.start_address.as_u64());
                kani::assume(same_half(sa, ea));
                let inclusive: bool = kani::any();
                let n = if inclusive {
                    if ea >= sa { ((ea - sa) as u128 / SZ) + 1 } else { 0 }
                } else if ea > sa { (ea - sa) as u128 / SZ } else { 0 };
                kani::assume(n <= 8);
                let mut count: u128 = 0;
                let mut expect = sa as u128;
                if inclusive {
                    let r = Page::range_inclusive(s, e);
                    vp!(C07, r.len() as u128 == n, "inclusive len differs from oracle");
                    for p in r {
                        vp!(C07, p.start_address.as_u64() as u128 == expect, "inclusive iteration not ascending page by page");
                        expect += SZ;
                        count += 1;
                    }
                } else {
                    let r = Page::range(s, e);
                    vp!(C07, r.len() as u128 == n, "exclusive len differs from oracle");
                    for p in r {
                        vp!(C07, p.start_address.as_u64() as u128 == expect, "exclusive iteration not ascending page by page");
                        expect += SZ;
                        count += 1;
                    }
                }
                vp!(C07, count == n, "range yielded a different number of items than len()");
                kani::cover!(n == 8 && inclusive);
                kani::cover!(n == 8 && !inclusive);
                kani::cover!(n == 2 && inclusive && ea as u128 + SZ == 1u128 << 64);
            }
        }
    };
}
mod c07 {
    use super::*;
    per_size!(page_ops);

    #[kani::proof]
    fn c07_range_2m_as_4k_same_bytes() {
        let s = any_page::<Size2MiB>();
        let e = any_page::<Size2MiB>();
        kani::assume(same_half(s.start_address.as_u64(), e.start_address.as_u64()));
        let r = Page::range(s, e);
        let q = r.as_4kib_page_range();
        vp!(C07, q.size() == r.size(), "as_4kib_page_range changed the byte size");
        vp!(C07, q.start.start_address() == s.start_address() && q.end.start_address() == e.start_address(), "as_4kib_page_range moved the bounds");
        vp!(C07, q.len() == r.len() * 512, "as_4kib_page_range length is not 512 x");
        kani::cover!(r.len() > 1);
    }
}
