//! C09 / C01 -- the frame-to-pointer mapping of `OffsetPageTable` (child module of `offset_page_table`:
//! `PhysOffset` is private).  OffsetPageTable delegates every operation to `MappedPageTable<PhysOffset>`,
//! whose walk logic is decided by the `pt_*` harnesses with an arbitrary pool mapping; what remains specific
//! to it is this address computation: the pointer is exactly `offset + frame start` for every offset and frame.
use super::*;
use crate::verif_oracle::*;

#[kani::proof]
fn c09_offset_frame_to_pointer_is_offset_plus_frame_mpanic() {
    let off = any_canonical();
    let fa = any_phys();
    kani::assume(fa % 4096 == 0);
    let m = PhysOffset { offset: unsafe { VirtAddr::new_unsafe(off) } };
    let frame = PhysFrame::containing_address(PhysAddr::new(fa));
    let p = m.frame_to_pointer(frame) as u64;
    vp!(C09, p as u128 == off as u128 + fa as u128, "OffsetPageTable dereferences a pointer other than physical-memory offset + frame address");
    kani::cover!(off & fa != 0);
    kani::cover!(off >= UPPER_BASE);
}

#[kani::proof]
fn c09_offset_accessors() {
    let off = any_canonical();
    let mut t = PageTable::new();
    let p = &t as *const PageTable as u64;
    let mut m = unsafe { OffsetPageTable::new(&mut t, VirtAddr::new_unsafe(off)) };
    vp!(C09, m.phys_offset().as_u64() == off, "phys_offset() is not the offset the mapper was created with");
    vp!(C09, m.level_4_table() as *const PageTable as u64 == p && m.level_4_table_mut() as *mut PageTable as u64 == p, "level_4_table is not the table the mapper was created with");
}
