//! C20 -- RecursivePageTable construction and recursive address computation
//! (child module of `recursive_page_table`: calls the private p{1,2,3}_page / _ptr helpers directly,
//! which is what the property's `hook_needed` asks an accessor for).
use super::*;
use crate::verif_isa::{havoc, m};
use crate::verif_oracle::*;

static mut VERIF_C20_TABLE: PageTable = PageTable::new();
static mut STUB_ADDR: u64 = 0;
static mut STUB_CALLS: u32 = 0;
static mut STUB_ARG: u64 = 0;
/// S-addr for C20: the table reference "lives" at a harness-chosen canonical address.
fn stub_virt_new(addr: u64) -> VirtAddr {
    unsafe {
        STUB_CALLS += 1;
        STUB_ARG = addr;
        VirtAddr::new_unsafe(STUB_ADDR)
    }
}

#[kani::proof]
#[kani::stub(crate::addr::VirtAddr::new, stub_virt_new)]
fn c20_new_accepts_exactly_recursive_and_active_nr() {
    let before = havoc();
    let a = any_canonical();
    unsafe { STUB_ADDR = a };
    let table = unsafe { &mut *core::ptr::addr_of_mut!(VERIF_C20_TABLE) };
    let table_ptr = table as *const PageTable as u64;
    let (i4, i3, i2, i1) = (field(a, 39, 9), field(a, 30, 9), field(a, 21, 9), field(a, 12, 9));
    // arbitrary contents of the candidate slot and of its neighbours (the only slots `new` may consult)
    unsafe {
        let raw_table = table as *mut PageTable as *mut u64;
        *raw_table.add(i4 as usize) = kani::any();
        *raw_table.add(((i4 + 1) % 512) as usize) = kani::any();
        *raw_table.add(((i4 + 511) % 512) as usize) = kani::any();
    }
    let recursive_form = i3 == i4 && i2 == i4 && i1 == i4;
    let slot = table[i4 as usize].clone();
    let raw: u64 = unsafe { core::mem::transmute(slot) };
    // SDM vol.3A 4.5: present = bit 0, frame = bits 12-51; CR3 frame = bits 12-51
    let active = raw & 1 == 1 && raw & 0x000f_ffff_ffff_f000 == before.cr[3] & 0x000f_ffff_ffff_f000;
    match RecursivePageTable::new(table) {
        Ok(rpt) => {
            vp!(C20, recursive_form, "new() accepted a table address that does not have the recursive form");
            vp!(C20, active, "new() accepted a table whose recursive slot does not point to the active root frame");
            vp!(C20, u64::from(rpt.recursive_index) == i4, "new() uses a recursive index other than the common index of the address");
            vp!(C20, rpt.p4 as *const PageTable as u64 == table_ptr, "new() keeps a different table");
        }
        Err(InvalidPageTable::NotRecursive) => vp!(C20, !recursive_form, "new() reported NotRecursive for a recursive table address"),
        Err(InvalidPageTable::NotActive) => vp!(C20, recursive_form && !active, "new() reported NotActive although the table is recursive and active (or not recursive at all)"),
    }
    vp!(C20, unsafe { STUB_CALLS == 1 && STUB_ARG == table_ptr }, "new() did not derive exactly one address from the table reference");
    vp!(C20, m().arch_eq(&before), "new() changed machine state");
    kani::cover!(recursive_form && active && i4 == 511);
    kani::cover!(recursive_form && active && i4 == 1);
    kani::cover!(recursive_form && !active && raw & 1 == 0);
    kani::cover!(recursive_form && !active && raw & 1 == 1);
    kani::cover!(!recursive_form && i3 == i4 && i2 == i4);
}

fn any_index() -> PageTableIndex {
    let i: u16 = kani::any();
    kani::assume(i < 512);
    PageTableIndex::new_truncate(i)
}
fn any_page<S: PageSize>() -> Page<S> {
    let a = any_canonical();
    kani::assume(a % S::SIZE == 0);
    Page::containing_address(unsafe { VirtAddr::new_unsafe(a) })
}
/// (i4, i3, i2, i1) -> sign-extended address, SDM vol.3A 4.5 fig. 4-8
fn compose(i4: u64, i3: u64, i2: u64, i1: u64) -> u64 {
    sign_extend48(i4 * (1 << 39) + i3 * (1 << 30) + i2 * (1 << 21) + i1 * (1 << 12))
}

macro_rules! p3_harness {
    ($name:ident, $S:ty) => {
        #[kani::proof]
        fn $name() {
            let r = any_index();
            let page = any_page::<$S>();
            let a = page.start_address().as_u64();
            let rr = u64::from(r);
            let want = compose(rr, rr, rr, field(a, 39, 9));
            vp!(C20, p3_page(page, r).start_address().as_u64() == want, "level-3 table address is not (R,R,R,p4) sign-extended");
            vp!(C20, p3_ptr(page, r) as u64 == want, "p3_ptr is not the level-3 table address");
            kani::cover!(rr >= 256 && field(a, 39, 9) >= 256);
            kani::cover!(rr < 256 && field(a, 39, 9) >= 256);
        }
    };
}
p3_harness!(c20_p3_page_4k, Size4KiB);
p3_harness!(c20_p3_page_2m, Size2MiB);
p3_harness!(c20_p3_page_1g, Size1GiB);

macro_rules! p2_harness {
    ($name:ident, $S:ty) => {
        #[kani::proof]
        fn $name() {
            let r = any_index();
            let page = any_page::<$S>();
            let a = page.start_address().as_u64();
            let rr = u64::from(r);
            let want = compose(rr, rr, field(a, 39, 9), field(a, 30, 9));
            vp!(C20, p2_page(page, r).start_address().as_u64() == want, "level-2 table address is not (R,R,p4,p3) sign-extended");
            vp!(C20, p2_ptr(page, r) as u64 == want, "p2_ptr is not the level-2 table address");
            kani::cover!(rr >= 256 && field(a, 39, 9) >= 256);
            kani::cover!(rr < 256 && field(a, 39, 9) >= 256);
        }
    };
}
p2_harness!(c20_p2_page_4k, Size4KiB);
p2_harness!(c20_p2_page_2m, Size2MiB);

#[kani::proof]
fn c20_p1_page_4k() {
    let r = any_index();
    let page = any_page::<Size4KiB>();
    let a = page.start_address().as_u64();
    let rr = u64::from(r);
    let want = compose(rr, field(a, 39, 9), field(a, 30, 9), field(a, 21, 9));
    vp!(C20, p1_page(page, r).start_address().as_u64() == want, "level-1 table address is not (R,p4,p3,p2) sign-extended");
    vp!(C20, p1_ptr(page, r) as u64 == want, "p1_ptr is not the level-1 table address");
    kani::cover!(rr >= 256 && field(a, 39, 9) >= 256);
    kani::cover!(rr < 256 && field(a, 39, 9) >= 256);
}

#[kani::proof]
fn c20_new_unchecked_keeps_index() {
    let r = any_index();
    let table = unsafe { &mut *core::ptr::addr_of_mut!(VERIF_C20_TABLE) };
    let p = table as *const PageTable as u64;
    let mut rpt = unsafe { RecursivePageTable::new_unchecked(table, r) };
    vp!(C20, rpt.recursive_index == r, "new_unchecked uses a different recursive index");
    vp!(C20, rpt.level_4_table() as *const PageTable as u64 == p && rpt.level_4_table_mut() as *mut PageTable as u64 == p, "level_4_table is not the given table");
}
