//! Instances (concrete address tuples from the boundary menu).  `pt_` harnesses serve C01, C02, C09 and the
//! flush-token part of C11 at once; each property's check counts only its own `VP[..]` obligations.
use super::mapped::*;

macro_rules! inst {
    ($name:ident, $f:path, $i4:expr, $i3:expr, $i2:expr, $i1:expr) => {
        #[kani::proof]
        #[kani::stub(crate::structures::paging::page_table::PageTable::zero, crate::structures::paging::mapper::verif_mapper::stub_zero)]
        fn $name() {
            $f(Inst { ix: [$i4, $i3, $i2, $i1] });
        }
    };
}
// ---- quick tier: a mid-table page and the last page of the address space
inst!(pt_map_4k_mid, s4k::map, 1, 2, 3, 4);
inst!(pt_map_2m_mid, s2m::map, 1, 2, 3, 4);
inst!(pt_map_1g_mid, s1g::map, 1, 2, 3, 4);
inst!(pt_unmap_4k_mid, s4k::unmap, 1, 2, 3, 4);
inst!(pt_unmap_2m_mid, s2m::unmap, 1, 2, 3, 4);
inst!(pt_unmap_1g_mid, s1g::unmap, 1, 2, 3, 4);
inst!(pt_update_4k_mid, s4k::update_flags, 1, 2, 3, 4);
inst!(pt_update_2m_mid, s2m::update_flags, 1, 2, 3, 4);
inst!(pt_update_1g_mid, s1g::update_flags, 1, 2, 3, 4);
inst!(pt_translate_mid, translate_only, 1, 2, 3, 4);
inst!(pt_map_4k_top, s4k::map, 511, 511, 511, 511);
inst!(pt_unmap_2m_top, s2m::unmap, 511, 511, 511, 511);
inst!(pt_translate_top, translate_only, 511, 511, 511, 511);
