//! Scenario builder and per-operation obligations for `MappedPageTable<PoolMap>` (natively replayable:
//! no Kani stubs, sparse symbolic memory).
use super::*;

/// Concrete addresses of one instance.
#[derive(Clone, Copy)]
pub struct Inst {
    /// page-table indices (p4, p3, p2, p1) of the operation's page
    pub ix: [usize; 4],
    /// what the path holds before the call (concrete skeleton, see `build`):
    /// 0: p4 slot empty            1: p4 -> P3, p3 slot empty      2: p3 slot = 1GiB leaf
    /// 3: .. -> P2, p2 slot empty  4: p2 slot = 2MiB leaf          5: .. -> P1, p1 slot empty
    /// 6: p1 slot = 4KiB leaf
    pub shape: u8,
    /// flags of the existing parent entries (concrete per instance; PRESENT is added)
    pub parent: u64,
    /// the `parent_table_flags` argument of map_to (concrete per instance; PRESENT is added)
    pub pflags: u64,
    /// allocator failure position (concrete per instance): 0 = never, n = the n-th request fails
    pub fail: u8,
    /// huge-page operations only: use concrete frame / flags arguments and a concrete target leaf, so that
    /// the crate's own `translate*` can be run on the page afterwards (an entry of level 2 or 3 with symbolic
    /// bits makes the crate's "is it a huge page?" branch symbolic and its table pointer data-dependent)
    pub conc: bool,
}
pub fn compose(i4: usize, i3: usize, i2: usize, i1: usize) -> u64 {
    sign_extend48(((i4 as u64) << 39) + ((i3 as u64) << 30) + ((i2 as u64) << 21) + ((i1 as u64) << 12))
}
fn va(a: u64) -> VirtAddr {
    unsafe { VirtAddr::new_unsafe(a) }
}

/// Pool layout (concrete): POOL[1] = level-3 table of the page's path, POOL[2] = level-2, POOL[3] = level-1,
/// POOL[4] = level-1 table of the neighbouring 2MiB region, POOL[5..8] = frames the allocator may hand out.
pub struct Scen {
    pub inst: Inst,
    pub free: [bool; N],
    /// probe addresses: inside the page (with symbolic offset), same P1 neighbour, other-P1 neighbour,
    /// other 1GiB region, other P4 slot
    pub probes: [u64; 5],
    /// witness slots for the frame rule
    pub wit: [Slot; 24],
    pub nwit: usize,
}

/// `op_leaf`: the level whose entry the operation targets (1 = 4KiB, 2 = 2MiB, 3 = 1GiB), 0 for read-only
/// operations.  A huge leaf that sits ABOVE the operation's target level is a parent the operation must
/// refuse; it is given concrete contents (read-only, supervisor) because the crate's "not huge" branch
/// would otherwise dereference a pointer derived from symbolic data and write through it.
pub fn build(inst: Inst, op_leaf: u32) -> Scen {
    #[cfg(test)]
    reset_pool(); // native replay runs several tests in one process
    let [i4, i3, i2, i1] = inst.ix;
    let (j4, j3, j2, n1) = (i4 ^ 1, i3 ^ 1, i2 ^ 1, i1 ^ 1);
    // ---- the path: CONCRETE skeleton (which slots are links / where the path ends) with concrete
    // parent flags, so that every table pointer the mapper dereferences is a constant during symbolic
    // execution (a symbolic table pointer turns each access into a multiplexer over N x 512 slots and
    // did not finish, DESIGN.md 3.5).  Symbolic: the contents of the leaf that ends the path, every
    // neighbouring entry, the stale bytes in free frames, the call's frame / flags / failure position.
    let par = (inst.parent | P) & !PS;
    let sh = inst.shape;
    let c4 = if sh >= 1 { LINK } else { ZERO };
    let c3 = if sh == 2 { HUGE } else if sh >= 3 { LINK } else { ZERO };
    let c2 = if sh == 4 { HUGE } else if sh >= 5 { LINK } else { ZERO };
    let c1 = if sh == 6 { LEAF } else { ZERO };
    set_raw(0, i4, if c4 == LINK { table_phys(1) | par } else { 0 });
    let h3 = if op_leaf == 3 && !inst.conc { any_huge(1 << 30) } else { 0x0000_0008_4000_0000 | P | PS | (inst.parent & !W) };
    let h2 = if op_leaf == 2 && !inst.conc { any_huge(1 << 21) } else { 0x0000_0008_4020_0000 | P | PS | (inst.parent & !W) };
    set_raw(1, i3, match c3 { LINK => table_phys(2) | par, HUGE => h3, _ => 0 });
    set_raw(2, i2, match c2 { LINK => table_phys(3) | par, HUGE => h2, _ => 0 });
    set_raw(3, i1, if c1 == LEAF { any_leaf() } else { 0 });
    // neighbours (symbolic leaves; the 2MiB neighbour slot links the second level-1 table or is a huge leaf)
    set_raw(3, n1, if kani::any() { any_leaf() } else { 0 });
    // entries of level 2 and 3 are concrete (see `Inst::conc`); level-1 leaves are symbolic
    let cj2: u8 = if inst.ix[0] % 2 == 1 { LINK } else { HUGE };
    set_raw(2, j2, match cj2 { LINK => table_phys(4) | par, _ => 0x0000_0008_4040_0000 | P | PS | W });
    set_raw(4, i1, if kani::any() { any_leaf() } else { 0 });
    set_raw(1, j3, if inst.ix[1] % 2 == 0 { 0x0000_0009_0000_0000 | P | PS | U } else { 0 });
    set_raw(0, j4, 0);
    // the recursive slot (used by the RecursivePageTable instances; an ordinary present entry otherwise)
    set_raw(0, RECURSIVE_INDEX, table_phys(0) | P | W);
    // ---- which tables are part of the hierarchy (the others may be handed out by the allocator)
    let l1 = c4 == LINK;
    let l2 = l1 && c3 == LINK;
    let l3 = l2 && c2 == LINK;
    let l4 = l2 && cj2 == LINK;
    let free = [false, !l1, !l2, !l3, !l4, true, true, true];
    // stale contents in the frames that are not linked (recycled / never zeroed memory)
    let gslots = [0usize, 1, i1, i2, i3, n1, j2, 511];
    let mut k = 5;
    while k < N {
        garbage(k, &gslots);
        k += 1;
    }
    // unlinked path tables keep whatever was written above plus garbage in slot 0 / 511
    if !l1 { garbage(1, &[0, 511]); }
    if !l2 { garbage(2, &[0, 511]); }
    if !l3 { garbage(3, &[0, 511]); }
    // Probe addresses are CONCRETE including their page offsets: a symbolic offset makes every table index
    // the crate derives from the address a symbolic 9-bit value, i.e. every table read a 512-way multiplexer.
    let a = compose(i4, i3, i2, i1);
    let probes = [a + 0xabc, compose(i4, i3, i2, n1) + 0x001, compose(i4, i3, j2, i1) + 0xfff, compose(i4, j3, i2, i1), compose(j4, i3, i2, i1) + 8];
    // witnesses: every slot written above, slots 0/511 of every table
    let mut wit = [Slot { k: 0, i: 0 }; 24];
    let list = [
        (0, i4), (1, i3), (2, i2), (3, i1), (3, n1), (2, j2), (4, i1), (1, j3), (0, j4),
        (5, i1), (5, i2), (5, i3), (6, i1), (6, i2), (6, i3), (7, i1), (7, i2), (7, i3),
        (1, 0), (2, 511), (3, 0), (5, 0), (6, 511), (7, 1),
    ];
    let mut n = 0;
    while n < list.len() {
        wit[n] = Slot { k: list[n].0, i: list[n].1 };
        n += 1;
    }
    Scen { inst, free, probes, wit, nwit: list.len() }
}

#[cfg(test)]
fn reset_pool() {
    unsafe {
        STRAY_ACCESS = false;
        let mut k = 0;
        while k < N {
            POOL[k] = PageTable::new();
            k += 1;
        }
    }
}

/// raw entries on the page's path as the hardware would follow them (0 below the first non-link)
pub struct PrePath {
    /// pool table holding the slot of each level (index 0 = level 4 ... 3 = level 1), if reachable
    pub tab: [Option<usize>; 4],
    pub ent: [u64; 4],
}
pub fn pre_path(a: u64) -> PrePath {
    let mut p = PrePath { tab: [None; 4], ent: [0; 4] };
    let mut k = Some(0usize);
    let mut level = 4u32;
    while level >= 1 {
        let li = (4 - level) as usize;
        match k {
            Some(t) => {
                let e = raw(t, idx(a, level));
                p.tab[li] = Some(t);
                p.ent[li] = e;
                k = if e & P != 0 && e & PS == 0 && level > 1 { pool_index(e & ADDR) } else { None };
            }
            None => {}
        }
        level -= 1;
    }
    p
}

/// recursive index of the RecursivePageTable instances (no instance uses it as a p4 index of a page)
pub const RECURSIVE_INDEX: usize = 300;
pub fn rmapper() -> RecursivePageTable<'static> {
    unsafe { RecursivePageTable::new_unchecked(&mut *core::ptr::addr_of_mut!(POOL[0]), crate::structures::paging::PageTableIndex::new(RECURSIVE_INDEX as u16)) }
}

/// OffsetPageTable over the pool (S-ptr stub `stub_as_ptr_offset`)
pub fn omapper() -> OffsetPageTable<'static> {
    unsafe { OffsetPageTable::new(&mut *core::ptr::addr_of_mut!(POOL[0]), VirtAddr::new_unsafe(OFFSET_BASE)) }
}

pub fn mapper() -> MappedPageTable<'static, PoolMap> {
    unsafe { MappedPageTable::new(&mut *core::ptr::addr_of_mut!(POOL[0]), PoolMap) }
}

/// decode a TranslateResult for comparison with the hardware walk
pub fn decode_translate(r: TranslateResult) -> (u8, u64, u64) {
    match r {
        TranslateResult::NotMapped => (0, 0, 0),
        TranslateResult::InvalidFrameAddress(_) => (8, 0, 0),
        TranslateResult::Mapped { frame, offset, flags } => {
            let kind = match frame {
                MappedFrame::Size4KiB(_) => 1,
                MappedFrame::Size2MiB(_) => 2,
                MappedFrame::Size1GiB(_) => 3,
            };
            (kind, frame.start_address().as_u64() + offset, flags.bits())
        }
    }
}

/// translate / translate_addr / translate_page agree with the hardware walk of the current memory.
pub fn check_translate_agrees<M>(m: &M, a: u64)
where
    M: Translate + Mapper<Size4KiB> + Mapper<Size2MiB> + Mapper<Size1GiB>,
{
    let w = hw_walk(a);
    vp!(C01, w.kind != 9, "the hierarchy is malformed after the call (level-4 huge bit or a link to a frame outside the hierarchy)");
    if w.kind == 9 {
        return;
    }
    let (kind, phys, flags) = decode_translate(m.translate(va(a)));
    vp!(C01, kind == w.kind, "translate disagrees with the hardware walk about whether / at which size the address is mapped");
    if w.kind != 0 {
        vp!(C01, phys == w.phys, "translate returns a different physical address than the hardware walk");
        // F3: for 4KiB leaves flags() also reports frame-address bit 12 as PAT_HUGE_PAGE
        vp!(C01, flags & FLAG_BITS == w.leaf_flags & FLAG_BITS, "translate returns different leaf flags than the raw entry holds");
    }
    let ta = m.translate_addr(va(a));
    vp!(C01, ta.map(|p| p.as_u64()) == if w.kind == 0 { None } else { Some(w.phys) }, "translate_addr disagrees with the hardware walk");
    // translate_page::<S> succeeds exactly for the size the address is mapped with, and returns the frame
    let t4 = Mapper::<Size4KiB>::translate_page(m, Page::<Size4KiB>::containing_address(va(a))).map(|f| f.start_address().as_u64()).ok();
    let t2 = Mapper::<Size2MiB>::translate_page(m, Page::<Size2MiB>::containing_address(va(a))).map(|f| f.start_address().as_u64()).ok();
    let t1 = Mapper::<Size1GiB>::translate_page(m, Page::<Size1GiB>::containing_address(va(a))).map(|f| f.start_address().as_u64()).ok();
    vp!(C01, t4 == if w.kind == 1 { Some(w.phys & !0xfff) } else { None }, "translate_page<4KiB> disagrees with the hardware walk");
    vp!(C02, w.kind == 2 || t2.is_none(), "translate_page<2MiB> reports success although no 2MiB mapping exists for the page");
    vp!(C01, w.kind != 2 || t2 == Some(w.phys & !0x1f_ffff), "translate_page<2MiB> disagrees with the hardware walk");
    vp!(C02, w.kind == 3 || t1.is_none(), "translate_page<1GiB> reports success although no 1GiB mapping exists for the page");
    vp!(C01, w.kind != 3 || t1 == Some(w.phys & !0x3fff_ffff), "translate_page<1GiB> disagrees with the hardware walk");
}

fn on_path(s: &Slot, pre: &PrePath, a: u64, leaf_level: u32) -> Option<u32> {
    // which level of the page's path this slot is (4..leaf_level), if any
    let mut level = 4u32;
    while level >= leaf_level {
        let li = (4 - level) as usize;
        if pre.tab[li] == Some(s.k) && s.i == idx(a, level) {
            return Some(level);
        }
        level -= 1;
    }
    None
}

macro_rules! size_ops {
    ($m:ident, $S:ty, $LEAF:expr, $KIND:expr, $mk:path) => {
        pub mod $m {
            use super::*;
            const LEAF: u32 = $LEAF; // level whose entry maps a page of this size
            const SIZE: u64 = <$S>::SIZE;

            fn page_of(inst: &Inst) -> (Page<$S>, u64) {
                let [i4, i3, i2, i1] = inst.ix;
                let a = match LEAF {
                    1 => compose(i4, i3, i2, i1),
                    2 => compose(i4, i3, i2, 0),
                    _ => compose(i4, i3, 0, 0),
                };
                (Page::<$S>::containing_address(va(a)), a)
            }
            fn in_page(a: u64, p: u64) -> bool {
                p >= a && p - a < SIZE
            }

            /// One `map_to_with_table_flags` from an arbitrary hierarchy state.
            pub fn map(inst: Inst) {
                map_via(inst, 0)
            }
            /// One `map_to` (parent flags derived from the leaf flags: PRESENT | WRITABLE | USER_ACCESSIBLE of them).
            pub fn map_plain(inst: Inst) {
                map_via(inst, 1)
            }
            /// One `identity_map` (the page is the one whose address equals the frame's; lower-half instances only).
            pub fn map_identity(inst: Inst) {
                map_via(inst, 2)
            }
            fn map_via(inst: Inst, via: u8) {
                let sc = build(inst, LEAF);
                let (page, a) = page_of(&inst);
                let fa = if via == 2 { a } else if inst.conc { 0x0000_000a_8000_0000 } else { any_phys() };
                // data frames lie below the pool; an identity-mapped frame lies where its page does (no instance's
                // page address falls into a pool frame)
                kani::assume(fa % SIZE == 0 && (via == 2 || fa + SIZE <= BASE));
                let frame = PhysFrame::<$S>::containing_address(PhysAddr::new(fa));
                // map_to / identity_map derive the parent flags from the leaf flags, and regime R2- needs concrete parent
                // flags (a parent entry with symbolic bits makes the next table pointer data-dependent): their instances
                // use concrete leaf flags; symbolic leaf flags are covered by the map_to_with_table_flags instances
                let flags = if via != 0 { P | (1 << 63) | (1 << 10) | (inst.pflags & (W | U)) } else if inst.conc { P | W | (1 << 63) | (1 << 10) } else { any_flags() | P };
                let tr_inpage = LEAF == 1 || inst.conc;
                let pflags = if via == 0 { (inst.pflags | P) & !PS } else { flags & (P | W | U) };
                let fail_at: u8 = inst.fail;
                let mut alloc = Alloc::new(sc.free, fail_at);
                // ---- before
                let pre = pre_path(a);
                let mut before = [NOT_MAPPED; 5];
                let mut wbefore = [0u64; 24];
                let mut j = 0;
                while j < 5 {
                    before[j] = hw_walk(sc.probes[j]);
                    kani::assume(before[j].kind != 9);
                    j += 1;
                }
                j = 0;
                while j < sc.nwit {
                    wbefore[j] = raw(sc.wit[j].k, sc.wit[j].i);
                    j += 1;
                }
                // ---- expected outcome from the raw pre-state (documented semantics)
                let mut need = 0u8;
                let mut huge_parent = false;
                let mut created = false;
                let mut level = 4u32;
                while level > LEAF {
                    let e = if created { 0 } else { pre.ent[(4 - level) as usize] };
                    if e == 0 {
                        need += 1;
                        created = true;
                    } else if e & PS != 0 {
                        huge_parent = true;
                        break;
                    }
                    level -= 1;
                }
                let leaf_before = if created || huge_parent { 0 } else { pre.ent[(4 - LEAF) as usize] };
                let alloc_fails = !huge_parent && fail_at != 0 && fail_at <= need;
                // ---- the call
                let mut m = $mk();
                let r = unsafe {
                    match via {
                        0 => m.map_to_with_table_flags(page, frame, PageTableFlags::from_bits_retain(flags), PageTableFlags::from_bits_retain(pflags), &mut alloc),
                        1 => m.map_to(page, frame, PageTableFlags::from_bits_retain(flags), &mut alloc),
                        _ => m.identity_map(frame, PageTableFlags::from_bits_retain(flags), &mut alloc),
                    }
                };
                kani::cover!(true); // the call returns (reachability witness; later obligations may cut the path)
                // ---- outcome
                let ok = match r {
                    Ok(flush) => {
                        vp!(C02, !huge_parent, "map_to succeeded although the page lies inside a larger huge page");
                        vp!(C02, !alloc_fails, "map_to succeeded although a needed frame allocation failed");
                        vp!(C02, leaf_before == 0, "map_to succeeded although the page was already mapped");
                        vp!(C11, flush.page() == page, "map_to returned a flush token for a different page");
                        true
                    }
                    Err(MapToError::ParentEntryHugePage) => {
                        vp!(C02, huge_parent, "map_to reported ParentEntryHugePage although no parent entry is a huge page");
                        false
                    }
                    Err(MapToError::FrameAllocationFailed) => {
                        vp!(C02, alloc_fails, "map_to reported FrameAllocationFailed although no needed allocation failed");
                        false
                    }
                    Err(MapToError::PageAlreadyMapped(f)) => {
                        vp!(C02, !huge_parent && !alloc_fails && leaf_before != 0, "map_to reported PageAlreadyMapped although the slot was unused");
                        vp!(C02, f == frame, "PageAlreadyMapped does not carry the frame of the call");
                        false
                    }
                };
                // ---- C09: memory, zeroing, allocation counts
                vp!(C09, unsafe { !STRAY_ACCESS }, "mapper dereferenced a frame that is not a page table of the hierarchy");
                if ok {
                    vp!(C09, alloc.calls == need, "map_to did not request exactly one frame per missing table");
                } else if huge_parent || leaf_before != 0 {
                    vp!(C09, alloc.calls == 0, "map_to requested frames although all needed tables existed");
                } else {
                    vp!(C09, alloc.calls <= need, "map_to requested more frames than missing tables");
                }
                vp!(C09, alloc.calls as u32 <= 4 - LEAF, "map_to requested more than one/two/three frames");
                // ---- C01 / C02: every probe
                j = 0;
                while j < 5 {
                    let p = sc.probes[j];
                    let after = hw_walk(p);
                    if ok && in_page(a, p) {
                        vp!(C01, after.kind == $KIND, "after map_to the page is not mapped with the requested size");
                        vp!(C01, after.phys == fa + (p - a), "after map_to the page does not translate to the given frame");
                        let want = if LEAF == 1 { flags } else { flags | PS };
                        vp!(C01, after.leaf_flags == want, "after map_to the leaf entry does not hold exactly the given flags (+ huge-page bit)");
                        vp!(C01, (!(pflags & W != 0 && flags & W != 0) || after.eff_w) && (!(pflags & U != 0 && flags & U != 0) || after.eff_u), "effective rights along the walk do not include the requested parent flags");
                    } else {
                        vp!(C02, same_mapping(&before[j], &after), "a call changed the mapping (frame, size or leaf flags) of another address / a failed call changed a mapping");
                        vp!(C02, (after.eff_w || !before[j].eff_w) && (after.eff_u || !before[j].eff_u), "a call removed effective rights of another address");
                        vp!(C01, (after.eff_w || !before[j].eff_w) && (after.eff_u || !before[j].eff_u), "the effective rights of an address no longer include the parent flags requested when it was mapped");
                    }
                    if tr_inpage || !in_page(a, p) {
                        check_translate_agrees(&m, p);
                    }
                    j += 1;
                }
                // ---- frame rule on the witness slots
                let post = pre_path(a);
                j = 0;
                while j < sc.nwit {
                    let s = sc.wit[j];
                    let now = raw(s.k, s.i);
                    let was = wbefore[j];
                    // slots inside a frame handed out by the allocator: zeroed, except the one path slot
                    let mut given = false;
                    let mut g = 0;
                    while g < alloc.ngiven {
                        if alloc.given[g] == s.k {
                            given = true;
                        }
                        g += 1;
                    }
                    let lvl = on_path(&s, &post, a, LEAF);
                    if given {
                        if lvl.is_none() {
                            vp!(C09, now == 0, "a table frame obtained from the allocator was not completely zeroed before use");
                        }
                    } else if let Some(l) = lvl {
                        if l > LEAF {
                            // existing parent entry: address unchanged, only the requested parent flags may be added;
                            // an unused one may become a link to a fresh table
                            if was != 0 {
                                vp!(C02, now & ADDR == was & ADDR && now & !ADDR & !pflags == was & !ADDR & !pflags && (now & !ADDR) & (was & !ADDR) == was & !ADDR, "an existing parent entry was changed beyond adding the requested parent flags");
                                if was & PS != 0 {
                                    vp!(C02, now == was, "a huge-page leaf on the path was modified by a call that must refuse it");
                                }
                            }
                        } else if !ok {
                            vp!(C02, now == was, "a failed map_to changed the leaf slot");
                        }
                    } else {
                        vp!(C09, now == was, "map_to modified memory outside the entries it is entitled to");
                    }
                    j += 1;
                }

            }

            /// One `unmap` from an arbitrary hierarchy state.
            pub fn unmap(inst: Inst) {
                let sc = build(inst, LEAF);
                let (page, a) = page_of(&inst);
                let pre = pre_path(a);
                let mut before = [NOT_MAPPED; 5];
                let mut wbefore = [0u64; 24];
                let mut j = 0;
                while j < 5 {
                    before[j] = hw_walk(sc.probes[j]);
                    kani::assume(before[j].kind != 9);
                    j += 1;
                }
                j = 0;
                while j < sc.nwit {
                    wbefore[j] = raw(sc.wit[j].k, sc.wit[j].i);
                    j += 1;
                }
                let here = hw_walk(a);
                let mut m = $mk();
                let r = Mapper::<$S>::unmap(&mut m, page);
                kani::cover!(true);
                let ok = match r {
                    Ok((f, flush)) => {
                        vp!(C02, here.kind == $KIND, "unmap succeeded although no mapping of this size exists for the page");
                        vp!(C01, f.start_address().as_u64() == here.phys, "unmap returned a different frame than the page was mapped to");
                        vp!(C11, flush.page() == page, "unmap returned a flush token for a different page");
                        true
                    }
                    Err(UnmapError::PageNotMapped) => {
                        vp!(C02, here.kind < $KIND, "unmap reported PageNotMapped for a page that is mapped (with this size or inside a larger huge page)");
                        false
                    }
                    Err(UnmapError::ParentEntryHugePage) => {
                        // documented for a page inside a larger huge page; the crate also returns it when the
                        // slot of a huge page size holds a table link (a mapping of this size does not exist)
                        vp!(C02, here.kind != $KIND && (here.kind > $KIND || (LEAF > 1 && pre.ent[(4 - LEAF) as usize] & P != 0)), "unmap reported ParentEntryHugePage although the page is not inside a larger huge page");
                        false
                    }
                    Err(UnmapError::InvalidFrameAddress(_)) => {
                        vp!(C02, false, "unmap reported InvalidFrameAddress for a well-formed entry");
                        false
                    }
                };
                if here.kind == $KIND {
                    vp!(C02, ok, "unmap failed although the page is mapped with this size");
                }
                vp!(C09, unsafe { !STRAY_ACCESS }, "mapper dereferenced a frame that is not a page table of the hierarchy");
                j = 0;
                while j < 5 {
                    let p = sc.probes[j];
                    let after = hw_walk(p);
                    if ok && in_page(a, p) {
                        vp!(C01, after.kind == 0, "after unmap the page still translates");
                    } else {
                        vp!(C02, same_mapping(&before[j], &after) && after.eff_w == before[j].eff_w && after.eff_u == before[j].eff_u, "unmap changed the mapping of another address / a failed unmap changed a mapping");
                    }
                    if LEAF == 1 || inst.conc || !in_page(a, p) {
                        check_translate_agrees(&m, p);
                    }
                    j += 1;
                }
                j = 0;
                while j < sc.nwit {
                    let s = sc.wit[j];
                    let is_leaf_slot = pre.tab[(4 - LEAF) as usize] == Some(s.k) && s.i == idx(a, LEAF);
                    if !(ok && is_leaf_slot) {
                        vp!(C09, raw(s.k, s.i) == wbefore[j], "unmap modified memory other than the page's own entry");
                    }
                    j += 1;
                }
            }

            /// One `update_flags` from an arbitrary hierarchy state.
            pub fn update_flags(inst: Inst) {
                let sc = build(inst, LEAF);
                let (page, a) = page_of(&inst);
                let pre = pre_path(a);
                let flags = if inst.conc { P | U | (1 << 9) } else { any_flags() | P };
                let mut before = [NOT_MAPPED; 5];
                let mut wbefore = [0u64; 24];
                let mut j = 0;
                while j < 5 {
                    before[j] = hw_walk(sc.probes[j]);
                    kani::assume(before[j].kind != 9);
                    j += 1;
                }
                j = 0;
                while j < sc.nwit {
                    wbefore[j] = raw(sc.wit[j].k, sc.wit[j].i);
                    j += 1;
                }
                let here = hw_walk(a);
                let mut m = $mk();
                let r = unsafe { Mapper::<$S>::update_flags(&mut m, page, PageTableFlags::from_bits_retain(flags)) };
                kani::cover!(true);
                let ok = match r {
                    Ok(flush) => {
                        vp!(C02, here.kind == $KIND, "update_flags reported success although no mapping of this size exists for the page");
                        vp!(C11, flush.page() == page, "update_flags returned a flush token for a different page");
                        true
                    }
                    Err(FlagUpdateError::PageNotMapped) => {
                        // "not mapped" = no mapping of this size and not inside a larger one (a table link in the
                        // slot of a huge size means smaller pages may be mapped below it, but not this page)
                        vp!(C02, here.kind < $KIND, "update_flags reported PageNotMapped for a page that is mapped (with this size or inside a larger huge page)");
                        false
                    }
                    Err(FlagUpdateError::ParentEntryHugePage) => {
                        vp!(C02, here.kind > $KIND, "update_flags reported ParentEntryHugePage although the page is not inside a larger huge page");
                        false
                    }
                };
                if here.kind == $KIND {
                    vp!(C02, ok, "update_flags failed although the page is mapped with this size");
                }
                vp!(C09, unsafe { !STRAY_ACCESS }, "mapper dereferenced a frame that is not a page table of the hierarchy");
                j = 0;
                while j < 5 {
                    let p = sc.probes[j];
                    let after = hw_walk(p);
                    if ok && here.kind == $KIND && in_page(a, p) {
                        vp!(C01, after.kind == $KIND && after.phys == before[j].phys, "update_flags changed the frame or size of the mapping");
                        let want = if LEAF == 1 { flags } else { flags | PS };
                        vp!(C01, after.leaf_flags == want, "after update_flags the leaf entry does not hold exactly the given flags");
                    } else {
                        vp!(C02, same_mapping(&before[j], &after) && after.eff_w == before[j].eff_w && after.eff_u == before[j].eff_u, "update_flags changed the mapping of another address / a failed update changed a mapping");
                    }
                    if LEAF == 1 || inst.conc || !in_page(a, p) {
                        check_translate_agrees(&m, p);
                    }
                    j += 1;
                }
                j = 0;
                while j < sc.nwit {
                    let s = sc.wit[j];
                    let is_leaf_slot = pre.tab[(4 - LEAF) as usize] == Some(s.k) && s.i == idx(a, LEAF);
                    if !(ok && is_leaf_slot) {
                        vp!(C09, raw(s.k, s.i) == wbefore[j], "update_flags modified memory other than the page's own entry");
                    }
                    j += 1;
                }
            }

            /// One `set_flags_p4_entry` / `set_flags_p3_entry` / `set_flags_p2_entry` (`level` = 4, 3, 2) from an
            /// arbitrary hierarchy state: the entry of that level on the page's path gets exactly the given flags
            /// and keeps its address; PageNotMapped when an entry down to that level is unused, ParentEntryHugePage
            /// when an entry above it is a huge page or pages of this size have no entry of that level.
            pub fn set_parent_flags(inst: Inst, level: u32) {
                let sc = build(inst, 0);
                let (page, a) = page_of(&inst);
                let pre = pre_path(a);
                let was = pre.ent[(4 - level) as usize];
                // `conc`: concrete flags that keep the entry's kind, so that the crate's translate* can be run afterwards
                let flags = if inst.conc { P | U | (1 << 9) | (was & PS) } else { any_flags() };
                let mut before = [NOT_MAPPED; 5];
                let mut wbefore = [0u64; 24];
                let mut j = 0;
                while j < 5 {
                    before[j] = hw_walk(sc.probes[j]);
                    kani::assume(before[j].kind != 9);
                    j += 1;
                }
                j = 0;
                while j < sc.nwit {
                    wbefore[j] = raw(sc.wit[j].k, sc.wit[j].i);
                    j += 1;
                }
                // ---- expected outcome: 0 = Ok, 1 = PageNotMapped, 2 = ParentEntryHugePage
                let mut expect = 0u8;
                if level <= LEAF {
                    expect = 2;
                } else {
                    let mut l = 4u32;
                    loop {
                        let e = pre.ent[(4 - l) as usize];
                        if e == 0 {
                            expect = 1;
                            break;
                        }
                        if l == level {
                            break;
                        }
                        if e & PS != 0 {
                            expect = 2;
                            break;
                        }
                        l -= 1;
                    }
                }
                let mut m = $mk();
                let fl = PageTableFlags::from_bits_retain(flags);
                let r = unsafe {
                    match level {
                        4 => Mapper::<$S>::set_flags_p4_entry(&mut m, page, fl),
                        3 => Mapper::<$S>::set_flags_p3_entry(&mut m, page, fl),
                        _ => Mapper::<$S>::set_flags_p2_entry(&mut m, page, fl),
                    }
                };
                kani::cover!(true);
                let ok = match r {
                    Ok(_) => {
                        vp!(C02, expect == 0, "set_flags_pN_entry reported success although that entry does not exist for the page (unused, below a huge page, or no such level for this page size)");
                        true
                    }
                    Err(FlagUpdateError::PageNotMapped) => {
                        vp!(C02, expect == 1, "set_flags_pN_entry reported PageNotMapped although every entry down to that level is in use");
                        false
                    }
                    Err(FlagUpdateError::ParentEntryHugePage) => {
                        vp!(C02, expect == 2, "set_flags_pN_entry reported ParentEntryHugePage although no entry above that level is a huge page");
                        false
                    }
                };
                vp!(C09, unsafe { !STRAY_ACCESS }, "mapper dereferenced a frame that is not a page table of the hierarchy");
                let ttab = pre.tab[(4 - level) as usize];
                if ok {
                    if let Some(t) = ttab {
                        vp!(C01, raw(t, idx(a, level)) == (was & ADDR) | flags, "after set_flags_pN_entry the entry does not hold exactly the given flags with its address unchanged");
                    }
                }
                j = 0;
                while j < 5 {
                    let p = sc.probes[j];
                    let after = hw_walk(p);
                    let mut under = true;
                    let mut l = 4u32;
                    while l >= level {
                        if idx(p, l) != idx(a, l) {
                            under = false;
                        }
                        l -= 1;
                    }
                    if !(ok && under) {
                        vp!(C02, same_mapping(&before[j], &after) && after.eff_w == before[j].eff_w && after.eff_u == before[j].eff_u, "set_flags_pN_entry changed the mapping or rights of an address outside the entry's region / a failed call changed a mapping");
                    } else if was & PS == 0 && flags & PS == 0 && flags & P != 0 {
                        vp!(C01, same_mapping(&before[j], &after), "set_flags_pN_entry of a table entry changed frame, size or leaf flags of a mapping below it");
                        vp!(C01, (!after.eff_w || flags & W != 0) && (!after.eff_u || flags & U != 0), "after set_flags_pN_entry the effective rights below the entry exceed the flags that were set");
                    }
                    if inst.conc {
                        check_translate_agrees(&m, p);
                    }
                    j += 1;
                }
                j = 0;
                while j < sc.nwit {
                    let s = sc.wit[j];
                    let is_target = ttab == Some(s.k) && s.i == idx(a, level);
                    if !(ok && is_target) {
                        vp!(C09, raw(s.k, s.i) == wbefore[j], "set_flags_pN_entry modified memory other than the addressed parent entry");
                    }
                    j += 1;
                }
            }
        }
    };
}
size_ops!(s4k, Size4KiB, 1, 1, mapper);
size_ops!(s2m, Size2MiB, 2, 2, mapper);
size_ops!(s1g, Size1GiB, 3, 3, mapper);
// the same obligations for the recursive mapper (CBMC-only environment: S-ptr stub = software MMU)
size_ops!(r4k, Size4KiB, 1, 1, rmapper);
size_ops!(r2m, Size2MiB, 2, 2, rmapper);
size_ops!(r1g, Size1GiB, 3, 3, rmapper);

// ... and for OffsetPageTable (every trait method is an explicit delegation to the inner MappedPageTable)
size_ops!(o4k, Size4KiB, 1, 1, omapper);
size_ops!(o2m, Size2MiB, 2, 2, omapper);
size_ops!(o1g, Size1GiB, 3, 3, omapper);

pub fn translate_only_offset(inst: Inst) {
    let sc = build(inst, 0);
    kani::cover!(true);
    let m = omapper();
    let mut j = 0;
    while j < 5 {
        check_translate_agrees(&m, sc.probes[j]);
        j += 1;
    }
    vp!(C09, unsafe { !STRAY_ACCESS }, "translate dereferenced memory that is not a page table of the hierarchy");
}

/// `identity_map` of a frame whose physical address is not a canonical virtual address (bit 47 set, bits 48-63
/// clear): no page has "the same address", the documented outcome is the panic of `VirtAddr::new`.
pub fn identity_noncanonical(which: u8) {
    let inst = Inst { ix: [1, 258, 259, 260], shape: 0, parent: W, pflags: 0, fail: 0, conc: true };
    let sc = build(inst, 0);
    let mut alloc = Alloc::new(sc.free, 0);
    let fa: u64 = 0x0000_8000_4000_0000;
    let fl = PageTableFlags::from_bits_retain(P | W);
    kani::cover!(true);
    match which {
        0 => {
            let mut m = mapper();
            let _ = unsafe { m.identity_map(PhysFrame::<Size4KiB>::containing_address(PhysAddr::new(fa)), fl, &mut alloc) };
        }
        1 => {
            let mut m = mapper();
            let _ = unsafe { m.identity_map(PhysFrame::<Size2MiB>::containing_address(PhysAddr::new(fa)), fl, &mut alloc) };
        }
        _ => {
            let mut m = mapper();
            let _ = unsafe { m.identity_map(PhysFrame::<Size1GiB>::containing_address(PhysAddr::new(fa)), fl, &mut alloc) };
        }
    }
    vp!(C01, false, "identity_map returned for a frame whose address is not a canonical virtual address (no page has that address)");
}

/// translate family on an arbitrary hierarchy (no modification).
pub fn translate_only_recursive(inst: Inst) {
    let sc = build(inst, 0);
    kani::cover!(true);
    let m = rmapper();
    let mut j = 0;
    while j < 5 {
        check_translate_agrees(&m, sc.probes[j]);
        j += 1;
    }
    vp!(C09, unsafe { !STRAY_ACCESS }, "translate dereferenced memory that is not a page table of the hierarchy");
}

pub fn translate_only(inst: Inst) {
    let sc = build(inst, 0);
    kani::cover!(true);
    let m = mapper();
    let mut j = 0;
    while j < 5 {
        check_translate_agrees(&m, sc.probes[j]);
        j += 1;
    }
    vp!(C09, unsafe { !STRAY_ACCESS }, "translate dereferenced a frame that is not a page table of the hierarchy");
}
