//! C10 -- `clean_up` / `clean_up_addr_range` of `MappedPageTable<PoolMap>` on concrete-skeleton hierarchies
//! with symbolic leaf contents (so which tables are empty, and therefore what must be freed, is decided by
//! the solver), for concrete inclusive page ranges from the boundary menu.
//!
//! Skeleton (pool indices): POOL[0] level 4; POOL[1] = level-3 table under p4 slot i4; POOL[2] = level-2
//! table under its slot i3; POOL[3] / POOL[4] = level-1 tables under level-2 slots i2 / j2; POOL[5] = an
//! empty level-3 table under p4 slot j4 (a table left behind by unmap); POOL[6] = level-2 table under
//! POOL[5] slot i3 holding only a 2MiB leaf (optional); POOL[7] unused.  Level-1 slots i1 / n1 of POOL[3] and
//! i1 of POOL[4] are symbolic (leaf or empty); optionally level-3 slot j3 of POOL[1] holds a 1GiB leaf.
use super::mapped::{compose, mapper, rmapper, RECURSIVE_INDEX};
use super::*;

#[derive(Clone, Copy)]
pub struct CInst {
    pub ix: [usize; 4],
    /// inclusive range of 4KiB pages (start addresses), concrete
    pub start: u64,
    pub end: u64,
    /// call the whole-address-space `clean_up()` instead of the range API (start/end must be the full range)
    pub whole: bool,
    /// POOL[1] slot j3 holds a 1GiB leaf (then POOL[1] can never become empty)
    pub huge3: bool,
    /// POOL[5] slot i3 links POOL[6] which holds one 2MiB leaf (then neither may ever be freed)
    pub sub5: bool,
    /// run the clean-up a second time and require that it deallocates nothing.  NOT USED: after the first
    /// run the parent entries are `if freed { 0 } else { link }`, i.e. symbolic, and the second walk writes
    /// through data-dependent table pointers (one instance reached 53 GB).  Idempotence follows from the first
    /// run's obligation instead: every table that overlaps the range and is empty was freed, so every
    /// overlapping table that is left is non-empty and a second run has nothing to free.
    pub repeat: bool,
}

static mut FREED: [u64; 8] = [0; 8];
static mut NFREED: usize = 0;
static mut FREED_WHILE_LINKED: bool = false;
/// every slot that can link a table in this skeleton: (parent table, slot)
static mut LINK_SLOTS: [(usize, usize); 6] = [(0, 0); 6];

struct LogDealloc;
impl FrameDeallocator<Size4KiB> for LogDealloc {
    unsafe fn deallocate_frame(&mut self, frame: PhysFrame<Size4KiB>) {
        let pa = frame.start_address().as_u64();
        unsafe {
            // "only after unlinking it from its parent": no parent slot still points to the frame
            let mut i = 0;
            while i < 6 {
                let (k, s) = LINK_SLOTS[i];
                let e = raw(k, s);
                if e & P != 0 && e & PS == 0 && e & ADDR == pa {
                    FREED_WHILE_LINKED = true;
                }
                i += 1;
            }
            if NFREED < 8 {
                FREED[NFREED] = pa;
            }
            NFREED += 1;
        }
    }
}
fn freed_count(pa: u64) -> usize {
    let mut n = 0;
    let mut i = 0;
    unsafe {
        while i < 8 {
            if i < NFREED && FREED[i] == pa {
                n += 1;
            }
            i += 1;
        }
    }
    n
}
fn freed_pos(pa: u64) -> usize {
    let mut i = 0;
    unsafe {
        while i < 8 {
            if i < NFREED && FREED[i] == pa {
                return i;
            }
            i += 1;
        }
    }
    99
}
fn overlaps(range: (u64, u64), base: u64, size_pages: u64) -> bool {
    // all in sequence positions of 4KiB pages
    let s = (rank(range.0) / 4096) as u64;
    let e = (rank(range.1) / 4096) as u64;
    let b = (rank(base) / 4096) as u64;
    s <= e && s < b + size_pages && e >= b
}

pub fn cleanup(c: CInst) {
    cleanup_with(c, false)
}
/// the same obligations for RecursivePageTable (S-ptr stub = software MMU; the recursive slot links the
/// level-4 table to itself and must be skipped: nothing "under" it may be visited or freed)
pub fn cleanup_recursive(c: CInst) {
    cleanup_with(c, true)
}

fn cleanup_with(c: CInst, recursive: bool) {
    #[cfg(test)]
    unsafe {
        NFREED = 0;
        FREED_WHILE_LINKED = false;
        STRAY_ACCESS = false;
        let mut k = 0;
        while k < N {
            POOL[k] = PageTable::new();
            k += 1;
        }
    }
    let [i4, i3, i2, i1] = c.ix;
    let (j4, j3, j2, n1) = (i4 ^ 1, i3 ^ 1, i2 ^ 1, i1 ^ 1);
    let par = P | W;
    // ---- skeleton
    set_raw(0, i4, table_phys(1) | par);
    set_raw(1, i3, table_phys(2) | par);
    set_raw(2, i2, table_phys(3) | par);
    set_raw(2, j2, table_phys(4) | par);
    set_raw(0, j4, table_phys(5) | par | U);
    set_raw(0, RECURSIVE_INDEX, table_phys(0) | P | W);
    if c.huge3 {
        set_raw(1, j3, 0x0000_0009_0000_0000 | P | PS | W);
    }
    if c.sub5 {
        set_raw(5, i3, table_phys(6) | par);
        set_raw(6, i2, 0x0000_0008_4020_0000 | P | PS);
    }
    // ---- symbolic leaves
    let l_a = if kani::any() { any_leaf() } else { 0 };
    let l_b = if kani::any() { any_leaf() } else { 0 };
    let l_c = if kani::any() { any_leaf() } else { 0 };
    set_raw(3, i1, l_a);
    set_raw(3, n1, l_b);
    set_raw(4, i1, l_c);
    unsafe {
        LINK_SLOTS = [(0, i4), (1, i3), (2, i2), (2, j2), (0, j4), (5, i3)];
    }
    // ---- before
    let probes = [compose(i4, i3, i2, i1) + 0x10, compose(i4, i3, i2, n1), compose(i4, i3, j2, i1) + 0xfff, compose(i4, j3, 0, 0) + 0x1234, compose(j4, i3, i2, 0) + 8, compose(j4, j3, 0, 0)];
    let mut before = [NOT_MAPPED; 6];
    let mut j = 0;
    while j < 6 {
        before[j] = hw_walk(probes[j]);
        j += 1;
    }
    // ---- the independent model of what must be freed
    let range = (c.start, c.end);
    let r3 = overlaps(range, compose(i4, i3, i2, 0), 512);
    let r4 = overlaps(range, compose(i4, i3, j2, 0), 512);
    let r2 = overlaps(range, compose(i4, i3, 0, 0), 512 * 512);
    let r1 = overlaps(range, compose(i4, 0, 0, 0), 512 * 512 * 512);
    let r5 = overlaps(range, compose(j4, 0, 0, 0), 512 * 512 * 512);
    let r6 = overlaps(range, compose(j4, i3, 0, 0), 512 * 512);
    let free3 = r3 && l_a == 0 && l_b == 0;
    let free4 = r4 && l_c == 0;
    let free2 = r2 && free3 && free4;
    let free1 = r1 && free2 && !c.huge3;
    let free5 = r5 && !c.sub5;
    let free6 = false; // holds a huge leaf
    let _ = r6;
    // ---- the call
    let mut d = LogDealloc;
    kani::cover!(true);
    unsafe {
        let s = Page::<Size4KiB>::containing_address(VirtAddr::new_unsafe(c.start));
        let e = Page::<Size4KiB>::containing_address(VirtAddr::new_unsafe(c.end));
        if recursive {
            let mut m = rmapper();
            if c.whole {
                m.clean_up(&mut d);
            } else {
                m.clean_up_addr_range(Page::range_inclusive(s, e), &mut d);
            }
        } else {
            let mut m = mapper();
            if c.whole {
                m.clean_up(&mut d);
            } else {
                m.clean_up_addr_range(Page::range_inclusive(s, e), &mut d);
            }
        }
    }
    vp!(C10, raw(0, RECURSIVE_INDEX) == table_phys(0) | P | W, "clean_up modified the recursive slot of the level-4 table");
    // ---- exactly the expected set, each once
    let want = [(1usize, free1), (2, free2), (3, free3), (4, free4), (5, free5), (6, free6)];
    let mut w = 0;
    let mut total = 0;
    while w < 6 {
        let (k, f) = want[w];
        let n = freed_count(table_phys(k));
        if f {
            vp!(C10, n >= 1, "an empty table that overlaps the range was left behind (not deallocated)");
            vp!(C10, n <= 1, "a table was deallocated more than once");
            let (pk, ps) = unsafe { LINK_SLOTS[w] }; // parent slot of POOL[w + 1] in this skeleton
            let e = raw(pk, ps);
            vp!(C10, e == 0, "a deallocated table is still linked from its parent");
            total += 1;
        } else {
            vp!(C10, n == 0, "a table was deallocated that still holds an entry, does not overlap the range, or is not a table of level 1-3");
        }
        w += 1;
    }
    vp!(C10, unsafe { NFREED } == total, "a frame outside the hierarchy's tables was deallocated (level-4 table, huge frame or data frame)");
    vp!(C10, freed_count(table_phys(0)) == 0, "the level-4 table was deallocated");
    vp!(C10, unsafe { !FREED_WHILE_LINKED }, "a table was deallocated before it was unlinked from its parent");
    // children before parents
    if free2 {
        vp!(C10, freed_pos(table_phys(3)) < freed_pos(table_phys(2)) && freed_pos(table_phys(4)) < freed_pos(table_phys(2)), "a parent table was deallocated before its children");
    }
    if free1 {
        vp!(C10, freed_pos(table_phys(2)) < freed_pos(table_phys(1)), "a parent table was deallocated before its children");
    }
    vp!(C09, unsafe { !STRAY_ACCESS }, "clean_up dereferenced a frame that is not a page table of the hierarchy");
    // ---- translations unchanged, untouched tables untouched
    j = 0;
    while j < 6 {
        let after = hw_walk(probes[j]);
        vp!(C10, same_mapping(&before[j], &after) && before[j].eff_w == after.eff_w && before[j].eff_u == after.eff_u, "clean_up changed the translation of an address");
        vp!(C01, same_mapping(&before[j], &after), "after a clean-up an address no longer translates to what the history of successful calls dictates");
        j += 1;
    }
    vp!(C10, raw(3, i1) == l_a && raw(3, n1) == l_b && raw(4, i1) == l_c, "clean_up modified a leaf entry");
    if c.huge3 {
        vp!(C10, raw(1, j3) == 0x0000_0009_0000_0000 | P | PS | W, "clean_up modified a huge-page entry");
    }
    if !r5 {
        vp!(C10, raw(0, j4) == table_phys(5) | par | U, "clean_up touched a table that does not overlap the range");
    }
    if !r1 {
        vp!(C10, raw(0, i4) == table_phys(1) | par && raw(1, i3) == table_phys(2) | par, "clean_up touched a table that does not overlap the range");
    }

}

