//! C10 instances: concrete positions and inclusive page ranges from the boundary menu (GENERATED, see DESIGN.md 0a.7).
use super::cleanup::*;

macro_rules! cinst {
    ($name:ident, [$i4:expr, $i3:expr, $i2:expr, $i1:expr], $start:expr, $end:expr, $whole:expr, $huge3:expr, $sub5:expr, $repeat:expr) => {
        #[kani::proof]
        #[kani::unwind(514)]
        fn $name() {
            cleanup(CInst { ix: [$i4, $i3, $i2, $i1], start: $start, end: $end, whole: $whole, huge3: $huge3, sub5: $sub5, repeat: $repeat });
        }
    };
}

macro_rules! rcinst {
    ($name:ident, [$i4:expr, $i3:expr, $i2:expr, $i1:expr], $start:expr, $end:expr, $whole:expr, $huge3:expr, $sub5:expr) => {
        #[kani::proof]
        #[kani::unwind(514)]
        #[kani::stub(crate::addr::VirtAddr::as_ptr, crate::structures::paging::mapper::verif_mapper::stub_as_ptr)]
        fn $name() {
            cleanup_recursive(CInst { ix: [$i4, $i3, $i2, $i1], start: $start, end: $end, whole: $whole, huge3: $huge3, sub5: $sub5, repeat: false });
        }
    };
}
// ---- quick tier
cinst!(c10_range_single_page, [256, 2, 3, 4], 0xffff800080604000, 0xffff800080604000, false, false, false, false);
cinst!(c10_range_p1_unaligned_window, [1, 2, 3, 4], 0x8080664000, 0x80806c8000, false, false, false, false);
cinst!(c10_range_two_p1_tables, [1, 2, 3, 4], 0x808040a000, 0x8080614000, false, false, false, false);
cinst!(c10_range_two_p3_slots_huge3, [1, 2, 3, 4], 0x80bfff0000, 0x80c0005000, false, true, false, false);
// range inside the level-1 table under the LOWER sibling slot: the higher sibling table lies beyond the range's end and must stay (C10x)
cinst!(c10_range_before_sibling_table, [1, 2, 3, 4], 0x8080410000, 0x8080420000, false, false, false, false);
cinst!(c10_range_empty, [1, 2, 3, 4], 0x8080605000, 0x8080604000, false, false, false, false);
// ---- thorough tier
cinst!(c10t_whole_plain, [1, 2, 3, 4], 0x0, 0xfffffffffffff000, true, false, false, false);
cinst!(c10t_whole_huge3, [1, 2, 3, 4], 0x0, 0xfffffffffffff000, true, true, false, false);
cinst!(c10t_range_full_sub5, [1, 2, 3, 4], 0x0, 0xfffffffffffff000, false, false, true, false);
cinst!(c10t_range_p1_aligned, [1, 2, 3, 4], 0x8080600000, 0x80807ff000, false, false, false, false);
cinst!(c10t_range_p2_region, [1, 2, 3, 4], 0x8080000000, 0x80bffff000, false, true, false, false);
cinst!(c10t_range_other_p4_only, [1, 2, 3, 4], 0x0, 0x7ffffff000, false, false, false, false);
cinst!(c10t_range_other_p4_sub5, [1, 2, 3, 4], 0x80600000, 0x80607000, false, false, true, false);
cinst!(c10t_range_spanning_gap, [255, 511, 511, 510], 0x7fffffff4000, 0xffff800000003000, false, false, false, false);
cinst!(c10t_range_to_last_page, [511, 511, 511, 510], 0xffffffffffe00000, 0xfffffffffffff000, false, false, false, false);
cinst!(c10t_whole_top, [511, 511, 511, 510], 0x0, 0xfffffffffffff000, true, false, false, false);
cinst!(c10t_range_first_page, [0, 0, 0, 1], 0x0, 0x0, false, false, false, false);
cinst!(c10t_whole_sub5_huge3, [1, 2, 3, 4], 0x0, 0xfffffffffffff000, true, true, true, false);
// ---- RecursivePageTable
rcinst!(c10_rec_range_p1_unaligned_window_nr, [1, 300, 3, 4], 0xcb00664000, 0xcb006c8000, false, false, false);
rcinst!(c10_rec_range_two_p3_slots_huge3_nr, [1, 2, 3, 4], 0x80bfff0000, 0x80c0005000, false, true, false);
rcinst!(c10t_rec_whole_plain_nr, [1, 2, 3, 4], 0x0, 0xfffffffffffff000, true, false, false);
rcinst!(c10t_rec_range_two_p1_tables_nr, [1, 2, 3, 4], 0x808040a000, 0x8080614000, false, false, false);
rcinst!(c10t_rec_whole_huge3_nr, [1, 2, 3, 4], 0x0, 0xfffffffffffff000, true, true, false);
