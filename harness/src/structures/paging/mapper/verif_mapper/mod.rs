//! C01 / C02 / C09 / C11(token) -- one-step harnesses of the mappers over simulated physical memory
//! (child module of `mapper`).  Regime R2 of DESIGN.md 3.5: all virtual addresses of an instance are
//! concrete (from a boundary menu); what the solver decides is the *contents* of the hierarchy
//! (which path slots are empty / table links / huge leaves / leaves, all flag bits, all frame numbers),
//! the allocator's choice of frames and its failure position, and all call arguments other than the page.
//!
//! Simulated physical memory: `N` page-table frames `POOL[k]` at physical `BASE + 4096 k`; `POOL[0]` is the
//! level-4 table.  Data frames are not materialised: a dereference that does not land in the pool is a
//! `VP[C09]` violation.  The oracle `hw_walk` reads raw 64-bit entries like an MMU (SDM vol.3A 4.5) and
//! shares no code with the crate.
#![allow(static_mut_refs)]
use super::*;
use crate::structures::paging::page_table::PageTable;
use crate::structures::paging::{FrameAllocator, FrameDeallocator};
use crate::verif_oracle::*;

pub mod cases;
pub mod cases_cleanup;
pub mod cases_offset;
pub mod cases_parent;
pub mod cases_recursive;
pub mod cases_seq;
pub mod cleanup;
pub mod mapped;
pub mod sequences;

pub const N: usize = 8;
/// All table frames lie at or above BASE; data frames used by the harnesses lie below it.
pub const BASE: u64 = 0x0000_0040_0000_0000;
/// Physical addresses of the pool's frames: deliberately not contiguous, and some are 2MiB- or 1GiB-aligned
/// (a table frame that is huge-page aligned passes the alignment test of the huge-page code paths).
pub const PHYS: [u64; N] = [
    0x0000_0040_0000_0000, // POOL[0] level 4
    0x0000_0040_0020_1000, // POOL[1]
    0x0000_0040_4000_0000, // POOL[2]  1GiB-aligned (level-2 table of the path)
    0x0000_0040_0040_0000, // POOL[3]  2MiB-aligned (level-1 table of the path)
    0x0000_0040_0020_4000, // POOL[4]
    0x0000_0040_0060_0000, // POOL[5]  2MiB-aligned
    0x0000_0040_8000_0000, // POOL[6]  1GiB-aligned
    0x0000_0040_0020_7000, // POOL[7]
];
pub const ADDR: u64 = 0x000f_ffff_ffff_f000; // bits 12-51
pub const P: u64 = 1; // present
pub const W: u64 = 2;
pub const U: u64 = 4;
pub const PS: u64 = 0x80; // page size (huge) at levels 3 and 2
/// flag bits the properties quantify over: bits 0-11 and 52-63 (bit 12 is the PAT bit of huge leaves, see F3)
pub const FLAG_BITS: u64 = 0xfff0_0000_0000_0fff;

pub static mut POOL: [PageTable; N] = [const { PageTable::new() }; N];
/// where stray accesses land (kept separate so that they cannot corrupt the pool)
pub static mut SINK: PageTable = PageTable::new();
pub static mut STRAY_ACCESS: bool = false;

pub fn raw(k: usize, i: usize) -> u64 {
    unsafe { crate::structures::paging::page_table::verif_pt::raw_get(&POOL[k], i) }
}
pub fn set_raw(k: usize, i: usize, v: u64) {
    unsafe { crate::structures::paging::page_table::verif_pt::raw_set(&mut POOL[k], i, v) }
}
pub fn table_phys(k: usize) -> u64 {
    PHYS[k]
}
/// pool index of a physical frame address, if it is a pool frame
pub fn pool_index(pa: u64) -> Option<usize> {
    let mut k = 0;
    while k < N {
        if pa == PHYS[k] {
            return Some(k);
        }
        k += 1;
    }
    None
}

/// S-zero: `PageTable::zero` as one whole-table assignment.  The real 512-iteration loop through a
/// symbolic pointer costs > 15 min of symbolic execution; the real `zero()` is verified separately
/// (C08 `c08_table_zero_clears_every_slot`: every slot is cleared).  Native replays run the real one.
pub fn stub_zero(t: &mut PageTable) {
    *t = PageTable::new();
}

/// The frame-to-pointer mapping of the simulated machine (arbitrary mapping: pool frames only).
pub struct PoolMap;
unsafe impl PageTableFrameMapping for PoolMap {
    fn frame_to_pointer(&self, frame: PhysFrame) -> *mut PageTable {
        match pool_index(frame.start_address().as_u64()) {
            Some(k) => unsafe { core::ptr::addr_of_mut!(POOL[k]) },
            None => unsafe {
                STRAY_ACCESS = true;
                core::ptr::addr_of_mut!(SINK)
            },
        }
    }
}

/// S-ptr: `VirtAddr::as_ptr` (and through it `as_mut_ptr`) for the RecursivePageTable harnesses = software MMU.
/// The recursive mapper reaches every table through a virtual address; the stub performs the 4-level
/// hardware walk of the pool for that address (SDM vol.3A 4.5; PS is honoured at levels 3 and 2 -- a huge
/// entry there means the access lands in a data frame -- and is the PAT bit at level 1) and returns the pool
/// table the address resolves to.  Anything else (page fault, data frame, frame outside the pool) is a
/// stray access.
pub fn stub_as_ptr<T>(a: VirtAddr) -> *const T {
    mmu_resolve(a.as_u64()) as *const T
}
/// S-ptr stub of the OffsetPageTable instances: the complete physical memory is mapped at `OFFSET_BASE`, so a
/// pointer is `OFFSET_BASE + physical address`; it resolves to the pool table with that physical address, and to
/// a stray access for any other frame.  (The pointer computation itself -- `offset + frame address` -- is the
/// crate's `PhysOffset::frame_to_pointer` and runs unstubbed; it is decided for all values in `c09_offset_*`.)
pub const OFFSET_BASE: u64 = 0xffff_9000_0000_0000;
pub fn stub_as_ptr_offset<T>(a: VirtAddr) -> *const T {
    let phys = a.as_u64().wrapping_sub(OFFSET_BASE);
    match pool_index(phys) {
        Some(k) => unsafe { core::ptr::addr_of_mut!(POOL[k]) as *const T },
        None => unsafe {
            STRAY_ACCESS = true;
            core::ptr::addr_of_mut!(SINK) as *const T
        },
    }
}
pub fn mmu_resolve(a: u64) -> *mut PageTable {
    let mut k = 0usize;
    let mut level = 4u32;
    while level >= 1 {
        let e = raw(k, idx(a, level));
        let bad = e & P == 0 || ((level == 3 || level == 2) && e & PS != 0);
        let next = if bad { None } else { pool_index(e & ADDR) };
        match next {
            Some(n) => k = n,
            None => unsafe {
                STRAY_ACCESS = true;
                return core::ptr::addr_of_mut!(SINK);
            },
        }
        level -= 1;
    }
    unsafe { core::ptr::addr_of_mut!(POOL[k]) }
}

// ------------------------------------------------------------------------------------------------
// allocator / deallocator with logs
pub struct Alloc {
    /// tables that may be handed out (not linked anywhere): decided by the scenario
    pub free: [bool; N],
    /// fail the n-th request (1-based) and every later one; 0 = never fail
    pub fail_at: u8,
    pub calls: u8,
    pub given: [usize; 4],
    pub ngiven: usize,
    pub descending: bool,
}
impl Alloc {
    pub fn new(free: [bool; N], fail_at: u8) -> Self {
        Alloc { free, fail_at, calls: 0, given: [0; 4], ngiven: 0, descending: false }
    }
}
unsafe impl FrameAllocator<Size4KiB> for Alloc {
    fn allocate_frame(&mut self) -> Option<PhysFrame<Size4KiB>> {
        self.calls += 1;
        if self.fail_at != 0 && self.calls >= self.fail_at {
            return None;
        }
        // Frames are handed out from the never-linked part of the pool (stale contents included).
        // `order` fixes the sequence per harness instance: a symbolic table index per allocation makes
        // every later memory access an 8-way multiplexer over 512-slot arrays (SSA->CNF did not finish).
        let k = if self.descending { N - 1 - self.ngiven } else { 5 + self.ngiven };
        if k >= N || k < 5 || !self.free[k] {
            return None;
        }
        self.free[k] = false;
        if self.ngiven < 4 {
            self.given[self.ngiven] = k;
            self.ngiven += 1;
        }
        Some(PhysFrame::containing_address(PhysAddr::new(table_phys(k))))
    }
}
pub struct Dealloc {
    pub freed: [u64; 8],
    pub n: usize,
}
impl FrameDeallocator<Size4KiB> for Dealloc {
    unsafe fn deallocate_frame(&mut self, frame: PhysFrame<Size4KiB>) {
        if self.n < 8 {
            self.freed[self.n] = frame.start_address().as_u64();
        }
        self.n += 1;
    }
}

// ------------------------------------------------------------------------------------------------
// the independent hardware-style walk
#[derive(Clone, Copy, PartialEq, Eq)]
pub struct Walk {
    /// 0 = not mapped, 1 = 4KiB, 2 = 2MiB, 3 = 1GiB, 9 = malformed hierarchy (outside WF)
    pub kind: u8,
    pub phys: u64,
    /// the leaf entry with its frame-address bits removed (flags incl. PS and the PAT bit position)
    pub leaf_flags: u64,
    pub eff_w: bool,
    pub eff_u: bool,
}
pub const NOT_MAPPED: Walk = Walk { kind: 0, phys: 0, leaf_flags: 0, eff_w: false, eff_u: false };

pub fn idx(a: u64, level: u32) -> usize {
    ((a >> (12 + 9 * (level - 1))) & 0x1ff) as usize
}
/// SDM vol.3A 4.5 (4-level paging): PML4E -> PDPTE (PS: 1GiB) -> PDE (PS: 2MiB) -> PTE.
pub fn hw_walk(a: u64) -> Walk {
    let mut k = 0usize;
    let (mut w, mut u) = (true, true);
    let mut level = 4u32;
    while level >= 1 {
        let e = raw(k, idx(a, level));
        if e & P == 0 {
            return NOT_MAPPED;
        }
        w = w && e & W != 0;
        u = u && e & U != 0;
        if level == 4 && e & PS != 0 {
            return Walk { kind: 9, ..NOT_MAPPED };
        }
        if level == 1 {
            return Walk { kind: 1, phys: (e & ADDR) + (a & 0xfff), leaf_flags: e & !ADDR, eff_w: w, eff_u: u };
        }
        if e & PS != 0 {
            if level == 3 {
                let fa = e & 0x000f_ffff_c000_0000;
                return Walk { kind: 3, phys: fa + (a & 0x3fff_ffff), leaf_flags: e & !0x000f_ffff_c000_0000, eff_w: w, eff_u: u };
            } else {
                let fa = e & 0x000f_ffff_ffe0_0000;
                return Walk { kind: 2, phys: fa + (a & 0x1f_ffff), leaf_flags: e & !0x000f_ffff_ffe0_0000, eff_w: w, eff_u: u };
            }
        }
        match pool_index(e & ADDR) {
            Some(n) => k = n,
            None => return Walk { kind: 9, ..NOT_MAPPED },
        }
        level -= 1;
    }
    NOT_MAPPED
}
/// mapping equal (frame/phys, size, leaf flags); effective rights may only grow by `gain`
pub fn same_mapping(a: &Walk, b: &Walk) -> bool {
    a.kind == b.kind && a.phys == b.phys && a.leaf_flags == b.leaf_flags
}

// ------------------------------------------------------------------------------------------------
// scenario: symbolic contents on a concrete path
#[derive(Clone, Copy)]
pub struct Slot {
    pub k: usize,
    pub i: usize,
}
/// What a slot holds before the call.
pub const ZERO: u8 = 0;
pub const LINK: u8 = 1;
pub const HUGE: u8 = 2;
pub const LEAF: u8 = 3;

pub fn any_flags() -> u64 {
    let f: u64 = kani::any();
    f & FLAG_BITS
}
/// arbitrary link entry to pool table `k` (PRESENT, not PS, other flags arbitrary)
pub fn any_link(k: usize) -> u64 {
    table_phys(k) | ((any_flags() | P) & !PS)
}
/// arbitrary huge leaf of the given size (PRESENT | PS, frame aligned, outside the pool's frames)
pub fn any_huge(size: u64) -> u64 {
    let f = any_phys();
    kani::assume(f % size == 0 && f + size <= BASE);
    f | any_flags() | P | PS
}
/// arbitrary 4KiB leaf (PRESENT; bit 7 is the PAT bit here)
pub fn any_leaf() -> u64 {
    let f = any_phys();
    kani::assume(f % 4096 == 0 && f < BASE);
    f | any_flags() | P
}
/// fill a few slots of a table with garbage (stale contents of a recycled frame / never-zeroed memory)
pub fn garbage(k: usize, slots: &[usize]) {
    let mut j = 0;
    while j < slots.len() {
        set_raw(k, slots[j], kani::any());
        j += 1;
    }
}

/// Snapshot of the whole pool for the frame rule (every byte outside the entitled slots unchanged).
pub fn snapshot() -> [[u64; 512]; N] {
    let mut s = [[0u64; 512]; N];
    let mut k = 0;
    while k < N {
        let mut i = 0;
        while i < 512 {
            s[k][i] = raw(k, i);
            i += 1;
        }
        k += 1;
    }
    s
}
