//! Sequence instances (`ptq_` quick, `ptqt_` thorough; `_nr` = RecursivePageTable).  GENERATED like cases.rs.
use super::mapped::Inst;
use super::sequences::*;
use super::{U, W};

const B9: u64 = 1 << 9;

macro_rules! sinst {
    ($name:ident, $f:path, [$i4:expr, $i3:expr, $i2:expr, $i1:expr], $shape:expr, $parent:expr, $pflags:expr) => {
        #[kani::proof]
        #[kani::unwind(514)]
        #[kani::stub(crate::structures::paging::page_table::PageTable::zero, crate::structures::paging::mapper::verif_mapper::stub_zero)]
        #[kani::stub(crate::addr::VirtAddr::as_ptr, crate::structures::paging::mapper::verif_mapper::stub_as_ptr)]
        fn $name() {
            $f(Inst { ix: [$i4, $i3, $i2, $i1], shape: $shape, parent: $parent, pflags: $pflags, fail: 0, conc: true });
        }
    };
}

sinst!(ptq_remap_s0, mp::map_unmap_remap, [1, 258, 259, 260], 0, W, U | B9);
sinst!(ptq_remap_s3, mp::map_unmap_remap, [1, 258, 259, 260], 3, W, U | B9);
sinst!(ptq_remap_s5, mp::map_unmap_remap, [1, 258, 259, 260], 5, W, U | B9);
sinst!(ptq_hugeshadow_s0, mp::huge_shadows_small, [1, 258, 259, 260], 0, W | U, W);
sinst!(ptq_hugeshadow_s3, mp::huge_shadows_small, [1, 258, 259, 260], 3, W | U, W);
sinst!(ptq_update_s1, mp::map_update_unmap, [1, 258, 259, 260], 1, W, W | U);
sinst!(ptq_update_s5, mp::map_update_unmap, [1, 258, 259, 260], 5, W, W | U);
sinst!(ptqt_remap_top_s1, mp::map_unmap_remap, [511, 511, 511, 511], 1, W | U, W);
sinst!(ptq_remap_s0_nr, rc::map_unmap_remap, [1, 258, 259, 260], 0, W, U | B9);
sinst!(ptq_remap_s3_nr, rc::map_unmap_remap, [1, 258, 259, 260], 3, W, U | B9);
sinst!(ptq_remap_s5_nr, rc::map_unmap_remap, [1, 258, 259, 260], 5, W, U | B9);
sinst!(ptq_hugeshadow_s0_nr, rc::huge_shadows_small, [1, 258, 259, 260], 0, W | U, W);
sinst!(ptq_hugeshadow_s3_nr, rc::huge_shadows_small, [1, 258, 259, 260], 3, W | U, W);
sinst!(ptq_update_s1_nr, rc::map_update_unmap, [1, 258, 259, 260], 1, W, W | U);
sinst!(ptq_update_s5_nr, rc::map_update_unmap, [1, 258, 259, 260], 5, W, W | U);
sinst!(ptqt_remap_top_s1_nr, rc::map_unmap_remap, [511, 511, 511, 511], 1, W | U, W);
sinst!(ptqt_cleanup_s0, map_unmap_cleanup, [1, 258, 259, 260], 0, W, W | U);
sinst!(ptqt_cleanup_s5, map_unmap_cleanup, [1, 258, 259, 260], 5, W, W | U);
