//! C01 / C02 / C09 -- short call *sequences* (2-4 calls) on the simulated physical memory, for the
//! order-dependent part of the properties that a one-step harness only reaches through the invariant:
//! unmap returns the frame of the earlier map, a huge mapping shadows smaller ones until it is unmapped,
//! re-mapping after unmap needs no new tables, flag updates are visible, tables emptied by unmap are freed by
//! clean-up.  Same regime as the one-step harnesses (concrete skeleton, symbolic leaf data and arguments).
use super::mapped::*;
use super::*;

fn va(a: u64) -> VirtAddr {
    unsafe { VirtAddr::new_unsafe(a) }
}
fn any_frame_below<S: PageSize>() -> (PhysFrame<S>, u64) {
    let fa = any_phys();
    kani::assume(fa % S::SIZE == 0 && fa + S::SIZE <= BASE);
    (PhysFrame::<S>::containing_address(PhysAddr::new(fa)), fa)
}
struct CountDealloc {
    n: usize,
    last: u64,
}
impl FrameDeallocator<Size4KiB> for CountDealloc {
    unsafe fn deallocate_frame(&mut self, frame: PhysFrame<Size4KiB>) {
        self.n += 1;
        self.last = frame.start_address().as_u64();
    }
}

macro_rules! sequences {
    ($m:ident, $mk:path) => {
        pub mod $m {
            use super::*;

            /// map 4KiB -> translate -> unmap (returns the same frame) -> not mapped -> map again (no new tables)
            pub fn map_unmap_remap(inst: Inst) {
                let sc = build(inst, 1);
                let [i4, i3, i2, i1] = inst.ix;
                let a = compose(i4, i3, i2, i1);
                let page = Page::<Size4KiB>::containing_address(va(a));
                let (f1, fa1) = any_frame_below::<Size4KiB>();
                let (f2, fa2) = any_frame_below::<Size4KiB>();
                let fl1 = any_flags() | P;
                let fl2 = any_flags() | P;
                let pf = PageTableFlags::from_bits_retain((inst.pflags | P) & !PS);
                let mut alloc = Alloc::new(sc.free, 0);
                let neighbour_before = hw_walk(sc.probes[1]);
                let mut m = $mk();
                let r1 = unsafe { m.map_to_with_table_flags(page, f1, PageTableFlags::from_bits_retain(fl1), pf, &mut alloc) };
                kani::cover!(r1.is_ok());
                if r1.is_err() {
                    return; // shapes where the page is occupied / inside a huge page are the one-step harnesses' job
                }
                let need = alloc.calls;
                let w1 = hw_walk(a + 0x123);
                vp!(C01, w1.kind == 1 && w1.phys == fa1 + 0x123 && w1.leaf_flags == fl1, "after map_to the address does not translate to the mapped frame / flags");
                // unmap returns the frame given to the earlier map
                match Mapper::<Size4KiB>::unmap(&mut m, page) {
                    Ok((f, flush)) => {
                        vp!(C01, f == f1, "unmap did not return the frame given to the earlier map_to");
                        vp!(C11, flush.page() == page, "unmap returned a flush token for a different page");
                    }
                    Err(_) => vp!(C02, false, "unmap of a page that was just mapped failed"),
                }
                vp!(C01, hw_walk(a + 0x123).kind == 0, "after unmap the address still translates");
                vp!(C02, Mapper::<Size4KiB>::unmap(&mut m, page).is_err(), "a second unmap of the same page reported success");
                // map again: all tables exist now
                let r2 = unsafe { m.map_to_with_table_flags(page, f2, PageTableFlags::from_bits_retain(fl2), pf, &mut alloc) };
                vp!(C02, r2.is_ok(), "re-mapping a page after unmap failed");
                vp!(C09, alloc.calls == need, "re-mapping after unmap requested new table frames although the tables exist");
                let w2 = hw_walk(a + 0x123);
                vp!(C01, w2.kind == 1 && w2.phys == fa2 + 0x123 && w2.leaf_flags == fl2, "after re-mapping the address does not translate to the new frame / flags");
                check_translate_agrees(&m, a + 0x123);
                vp!(C02, same_mapping(&neighbour_before, &hw_walk(sc.probes[1])), "the sequence changed the mapping of the neighbouring page");
                vp!(C09, unsafe { !STRAY_ACCESS }, "mapper dereferenced memory that is not a page table of the hierarchy");
            }

            /// map 2MiB -> map 4KiB inside is refused and changes nothing -> unmap 2MiB -> map 4KiB inside succeeds
            pub fn huge_shadows_small(inst: Inst) {
                let sc = build(inst, 2);
                let [i4, i3, i2, i1] = inst.ix;
                let a2 = compose(i4, i3, i2, 0);
                let a4 = compose(i4, i3, i2, i1);
                let big = Page::<Size2MiB>::containing_address(va(a2));
                let small = Page::<Size4KiB>::containing_address(va(a4));
                let fa2: u64 = 0x0000_000a_8020_0000; // concrete (see Inst::conc): translate() is run on the page
                let f2 = PhysFrame::<Size2MiB>::containing_address(PhysAddr::new(fa2));
                let hfl = P | (inst.parent & U); // read-only huge mapping
                let (f4, fa4) = any_frame_below::<Size4KiB>();
                let fl4 = any_flags() | P;
                let pf = PageTableFlags::from_bits_retain((inst.pflags | P | W) & !PS);
                let mut alloc = Alloc::new(sc.free, 0);
                let mut m = $mk();
                let r1 = unsafe { m.map_to_with_table_flags(big, f2, PageTableFlags::from_bits_retain(hfl), pf, &mut alloc) };
                kani::cover!(r1.is_ok());
                if r1.is_err() {
                    return;
                }
                let wh = hw_walk(a4 + 0x10);
                vp!(C01, wh.kind == 2 && wh.phys == fa2 + (a4 - a2) + 0x10 && wh.leaf_flags == hfl | PS, "after mapping a 2MiB page an address inside does not translate through it");
                let calls = alloc.calls;
                let r2 = unsafe { m.map_to_with_table_flags(small, f4, PageTableFlags::from_bits_retain(fl4), pf, &mut alloc) };
                vp!(C02, matches!(r2, Err(MapToError::ParentEntryHugePage)), "mapping a 4KiB page inside a 2MiB mapping did not report ParentEntryHugePage");
                vp!(C02, same_mapping(&wh, &hw_walk(a4 + 0x10)), "the refused map_to changed the huge mapping");
                vp!(C09, alloc.calls == calls, "the refused map_to requested frames");
                check_translate_agrees(&m, a4 + 0x10);
                match Mapper::<Size2MiB>::unmap(&mut m, big) {
                    Ok((f, _)) => vp!(C01, f == f2, "unmap of the 2MiB page did not return the frame given to map_to"),
                    Err(_) => vp!(C02, false, "unmap of a 2MiB page that was just mapped failed"),
                }
                let r3 = unsafe { m.map_to_with_table_flags(small, f4, PageTableFlags::from_bits_retain(fl4), pf, &mut alloc) };
                vp!(C02, r3.is_ok(), "mapping a 4KiB page after the huge page was unmapped failed");
                vp!(C09, alloc.calls == calls + 1, "mapping under the freed 2MiB slot did not request exactly one table frame");
                let w4 = hw_walk(a4 + 0x10);
                vp!(C01, w4.kind == 1 && w4.phys == fa4 + 0x10 && w4.leaf_flags == fl4, "after the sequence the 4KiB page does not translate to its frame");
                vp!(C01, hw_walk(a2 + 0x1ff000).kind == 0 || i1 == 511, "another 4KiB page of the former huge region is still mapped");
                vp!(C09, unsafe { !STRAY_ACCESS }, "mapper dereferenced memory that is not a page table of the hierarchy");
            }

            /// map 4KiB -> update_flags -> translate shows the new flags -> unmap returns the frame
            pub fn map_update_unmap(inst: Inst) {
                let sc = build(inst, 1);
                let [i4, i3, i2, i1] = inst.ix;
                let a = compose(i4, i3, i2, i1);
                let page = Page::<Size4KiB>::containing_address(va(a));
                let (f1, fa1) = any_frame_below::<Size4KiB>();
                let fl1 = any_flags() | P;
                let fl2 = any_flags() | P;
                let pf = PageTableFlags::from_bits_retain((inst.pflags | P) & !PS);
                let mut alloc = Alloc::new(sc.free, 0);
                let mut m = $mk();
                let r1 = unsafe { m.map_to_with_table_flags(page, f1, PageTableFlags::from_bits_retain(fl1), pf, &mut alloc) };
                kani::cover!(r1.is_ok());
                if r1.is_err() {
                    return;
                }
                let r2 = unsafe { Mapper::<Size4KiB>::update_flags(&mut m, page, PageTableFlags::from_bits_retain(fl2)) };
                vp!(C02, r2.is_ok(), "update_flags of a page that was just mapped failed");
                let w = hw_walk(a);
                vp!(C01, w.kind == 1 && w.phys == fa1 && w.leaf_flags == fl2, "after update_flags the page does not translate to the same frame with the new flags");
                check_translate_agrees(&m, a);
                match Mapper::<Size4KiB>::unmap(&mut m, page) {
                    Ok((f, _)) => vp!(C01, f == f1, "unmap after update_flags did not return the mapped frame"),
                    Err(_) => vp!(C02, false, "unmap after update_flags failed"),
                }
                vp!(C09, unsafe { !STRAY_ACCESS }, "mapper dereferenced memory that is not a page table of the hierarchy");
            }
        }
    };
}
sequences!(mp, mapper);
sequences!(rc, rmapper);
sequences!(of, omapper);

/// map 4KiB into an empty region -> unmap -> clean_up of that page: exactly the tables the map created are freed
/// again and the neighbours' translations are untouched (MappedPageTable).
pub fn map_unmap_cleanup(inst: Inst) {
    let sc = build(inst, 1);
    let [i4, i3, i2, i1] = inst.ix;
    let a = compose(i4, i3, i2, i1);
    let page = Page::<Size4KiB>::containing_address(va(a));
    let (f1, _fa1) = any_frame_below::<Size4KiB>();
    let fl1 = any_flags() | P;
    let pf = PageTableFlags::from_bits_retain((inst.pflags | P) & !PS);
    let mut alloc = Alloc::new(sc.free, 0);
    let far_before = hw_walk(sc.probes[3]);
    let mut m = mapper();
    let r1 = unsafe { m.map_to_with_table_flags(page, f1, PageTableFlags::from_bits_retain(fl1), pf, &mut alloc) };
    kani::cover!(r1.is_ok());
    if r1.is_err() {
        return;
    }
    let created = alloc.calls as usize;
    let _ = Mapper::<Size4KiB>::unmap(&mut m, page);
    let mut d = CountDealloc { n: 0, last: 0 };
    unsafe { m.clean_up_addr_range(Page::range_inclusive(page, page), &mut d) };
    // tables created for this page held nothing else (they were zeroed), so all of them are empty again
    vp!(C10, d.n >= created, "clean_up left behind an empty table that the earlier map_to created");
    vp!(C10, hw_walk(a).kind == 0, "the page translates after unmap + clean_up");
    vp!(C01, same_mapping(&far_before, &hw_walk(sc.probes[3])), "map + unmap + clean_up changed the translation of an unrelated address");
    vp!(C09, unsafe { !STRAY_ACCESS }, "mapper dereferenced memory that is not a page table of the hierarchy");
}
