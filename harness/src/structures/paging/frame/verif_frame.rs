//! C03 / C06 / C07 obligations on `PhysFrame<S>` and the frame ranges (child module of `frame`).
use super::*;
use crate::structures::paging::page::{Size1GiB, Size2MiB};
use crate::verif_oracle::*;

fn phys(a: u64) -> PhysAddr {
    unsafe { PhysAddr::new_unsafe(a) }
}
fn any_frame<S: PageSize>() -> PhysFrame<S> {
    let a = any_phys();
    kani::assume(a % S::SIZE == 0);
    PhysFrame { start_address: phys(a), size: PhantomData }
}
fn valid_frame<S: PageSize>(f: PhysFrame<S>) -> bool {
    let a = f.start_address.as_u64();
    is_phys(a) && a % S::SIZE == 0
}

macro_rules! per_size {
    ($mac:ident) => {
        $mac!(s4k, Size4KiB);
        $mac!(s2m, Size2MiB);
        $mac!(s1g, Size1GiB);
    };
}

macro_rules! frame_harnesses {
    ($m:ident, $S:ty) => {
        mod $m {
            use super::*;
            const SZ: u128 = <$S>::SIZE as u128;

            #[kani::proof]
            fn c06_frame_containing_and_from_start() {
                let a = any_phys();
                let f = PhysFrame::<$S>::containing_address(phys(a));
                let s = f.start_address().as_u64();
                vp!(C06, s % <$S>::SIZE == 0, "containing frame does not start at a size-aligned address");
                vp!(C06, s <= a && a - s < <$S>::SIZE, "containing frame does not contain the address");
                vp!(C03, is_phys(s), "PhysFrame start address has bits 52..64");
                vp!(C06, f.size() == <$S>::SIZE, "PhysFrame::size wrong");
                match PhysFrame::<$S>::from_start_address(phys(a)) {
                    Ok(g) => {
                        vp!(C06, a % <$S>::SIZE == 0, "PhysFrame::from_start_address accepted an unaligned address");
                        vp!(C06, g.start_address().as_u64() == a, "PhysFrame::from_start_address changed the address");
                    }
                    Err(_) => vp!(C06, a % <$S>::SIZE != 0, "PhysFrame::from_start_address rejected an aligned address"),
                }
                let g = unsafe { PhysFrame::<$S>::from_start_address_unchecked(phys(s)) };
                vp!(C06, g == f, "PhysFrame::from_start_address_unchecked differs");
                kani::cover!(a % <$S>::SIZE != 0 && a > (1 << 51));
                kani::cover!(a % <$S>::SIZE == 0 && a > 0);
            }

            #[kani::proof]
            fn c07_frame_ops_exact_mpanic() {
                let f = any_frame::<$S>();
                let a = f.start_address.as_u64();
                let n: u64 = kani::any();
                match kani::any::<u8>() {
                    0 => {
                        let r = f + n;
                        vp!(C07, r.start_address.as_u64() as u128 == a as u128 + n as u128 * SZ, "PhysFrame + u64 is not exact");
                        vp!(C03, valid_frame(r), "PhysFrame + u64 produced an invalid frame");
                        kani::cover!(n > 0);
                    }
                    1 => {
                        let r = f - n;
                        vp!(C07, r.start_address.as_u64() as i128 == a as i128 - (n as u128 * SZ) as i128, "PhysFrame - u64 is not exact");
                        vp!(C03, valid_frame(r), "PhysFrame - u64 produced an invalid frame");
                        kani::cover!(n > 0);
                    }
                    2 => {
                        let mut r = f;
                        r += n;
                        vp!(C07, r.start_address.as_u64() as u128 == a as u128 + n as u128 * SZ, "PhysFrame += u64 is not exact");
                    }
                    3 => {
                        let mut r = f;
                        r -= n;
                        vp!(C07, r.start_address.as_u64() as i128 == a as i128 - (n as u128 * SZ) as i128, "PhysFrame -= u64 is not exact");
                    }
                    _ => {
                        let g = any_frame::<$S>();
                        let d = f - g;
                        vp!(C07, d as i128 * SZ as i128 == a as i128 - g.start_address.as_u64() as i128, "PhysFrame - PhysFrame is not exact");
                        kani::cover!(d > 0);
                    }
                }
            }

            #[kani::proof]
            fn c07_frame_range_step() {
                let s = any_frame::<$S>();
                let e = any_frame::<$S>();
                let (sa, ea) = (s.start_address.as_u64(), e.start_address.as_u64());
                let mut r = PhysFrame::range(s, e);
                let n = if ea > sa { ((ea - sa) as u128 / SZ) as u64 } else { 0 };
                vp!(C07, r.len() == n, "PhysFrameRange::len is not the number of frames");
                vp!(C07, r.is_empty() == (n == 0), "PhysFrameRange::is_empty disagrees with len");
                vp!(C07, r.size() as u128 == n as u128 * SZ, "PhysFrameRange::size is not len x frame size");
                let item = r.next();
                if n == 0 {
                    vp!(C07, item.is_none() && r.len() == 0, "empty PhysFrameRange yielded an item");
                } else {
                    vp!(C07, item == Some(s), "PhysFrameRange did not yield its start");
                    vp!(C07, r.len() == n - 1 && r.end == e, "PhysFrameRange::next did not shorten the range by one");
                    vp!(C07, r.start.start_address.as_u64() as u128 == sa as u128 + SZ, "PhysFrameRange::next did not advance by one frame");
                }
                kani::cover!(n > 1);
                kani::cover!(n == 1);
                kani::cover!(n == 0 && ea < sa);
            }

            #[kani::proof]
            fn c07_frame_range_inclusive_step() {
                let s = any_frame::<$S>();
                let e = any_frame::<$S>();
                let (sa, ea) = (s.start_address.as_u64(), e.start_address.as_u64());
                let mut r = PhysFrame::range_inclusive(s, e);
                let n = if ea >= sa { ((ea - sa) as u128 / SZ) as u64 + 1 } else { 0 };
                vp!(C07, r.len() == n, "PhysFrameRangeInclusive::len is not the number of frames");
                vp!(C07, r.is_empty() == (n == 0), "PhysFrameRangeInclusive::is_empty disagrees with len");
                vp!(C07, r.size() as u128 == n as u128 * SZ, "PhysFrameRangeInclusive::size is not len x frame size");
                let item = r.next();
                if n == 0 {
                    vp!(C07, item.is_none(), "empty PhysFrameRangeInclusive yielded an item");
                } else {
                    vp!(C07, item == Some(s), "PhysFrameRangeInclusive did not yield its start");
                    vp!(C07, r.len() == n - 1, "PhysFrameRangeInclusive::next did not shorten the range by one");
                    if n > 1 {
                        vp!(C07, r.end == e && r.start.start_address.as_u64() as u128 == sa as u128 + SZ, "PhysFrameRangeInclusive::next did not advance start by one frame");
                    } else {
                        vp!(C07, r.next().is_none(), "exhausted PhysFrameRangeInclusive yielded again");
                    }
                }
                kani::cover!(n > 1);
                kani::cover!(n == 1 && ea as u128 + SZ == 1u128 << 52);
                kani::cover!(n == 1 && ea == 0);
                kani::cover!(n == 0);
            }

            #[kani::proof]
            #[kani::unwind(7)]
            fn c07_frame_range_full_iteration_le4() {
                let s = any_frame::<$S>();
                let e = any_frame::<$S>();
                let (sa, ea) = (s.start_address.as_u64(), e.start_address.as_u64());
                let inclusive: bool = kani::any();
                let n = if inclusive {
                    if ea >= sa { ((ea - sa) as u128 / SZ) + 1 } else { 0 }
                } else if ea > sa { (ea - sa) as u128 / SZ } else { 0 };
                kani::assume(n <= 4);
                let mut count: u128 = 0;
                let mut expect = sa as u128;
                if inclusive {
                    for f in PhysFrame::range_inclusive(s, e) {
                        vp!(C07, f.start_address.as_u64() as u128 == expect, "inclusive frame iteration not ascending");
                        expect += SZ;
                        count += 1;
                    }
                } else {
                    for f in PhysFrame::range(s, e) {
                        vp!(C07, f.start_address.as_u64() as u128 == expect, "exclusive frame iteration not ascending");
                        expect += SZ;
                        count += 1;
                    }
                }
                vp!(C07, count == n, "frame range yielded a different number of items than len()");
                kani::cover!(n == 4 && inclusive);
                kani::cover!(n == 3 && !inclusive);
                kani::cover!(n == 2 && inclusive && ea as u128 + SZ == 1u128 << 52);
            }

            #[kani::proof]
            #[kani::unwind(11)]
            fn c07t_frame_range_full_iteration_le8() {
                let s = any_frame::<$S>();
                let e = any_frame::<$S>();
                let (sa, ea) = (s.start_address.as_u64(), e.start_address.as_u64());
                let inclusive: bool = kani::any();
                let n = if inclusive {
                    if ea >= sa { ((ea - sa) as u128 / SZ) + 1 } else { 0 }
                } else if ea > sa { (ea - sa) as u128 / SZ } else { 0 };
                kani::assume(n <= 8);
                let mut count: u128 = 0;
                let mut expect = sa as u128;
                if inclusive {
                    for f in PhysFrame::range_inclusive(s, e) {
                        vp!(C07, f.start_address.as_u64() as u128 == expect, "inclusive frame iteration not ascending");
                        expect += SZ;
                        count += 1;
                    }
                } else {
                    for f in PhysFrame::range(s, e) {
                        vp!(C07, f.start_address.as_u64() as u128 == expect, "exclusive frame iteration not ascending");
                        expect += SZ;
                        count += 1;
                    }
                }
                vp!(C07, count == n, "frame range yielded a different number of items than len()");
                kani::cover!(n == 8 && inclusive);
                kani::cover!(n == 7 && !inclusive);
                kani::cover!(n == 2 && inclusive && ea as u128 + SZ == 1u128 << 52);
            }
        }
    };
}
per_size!(frame_harnesses);
