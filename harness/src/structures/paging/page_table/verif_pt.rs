//! C03 / C04 / C05 / C08 obligations on `PageTableEntry`, `PageTable`, `PageTableIndex`,
//! `PageOffset`, `PageTableLevel` (child module of `page_table`: reads the raw `entry` word and
//! the `entries` array directly).
use super::*;
use crate::verif_oracle::*;
use core::iter::Step;

/// Typed raw access to table memory for the mapper harnesses (a `*mut u64` view of a `PageTable` would be
/// a type-punned access that CBMC resolves with byte-extract operations over the whole 4KiB object).
pub(crate) fn raw_get(t: &PageTable, i: usize) -> u64 {
    t.entries[i].entry
}
pub(crate) fn raw_set(t: &mut PageTable, i: usize, v: u64) {
    t.entries[i].entry = v;
}

const ADDR_MASK: u64 = 0x000f_ffff_ffff_f000; // SDM vol.3A table 4-20: bits 51:12
/// flag bits the property quantifies over: bits 0-11 and 52-63
const FLAG_BITS: u64 = 0xfff0_0000_0000_0fff;

fn any_entry() -> PageTableEntry {
    PageTableEntry { entry: kani::any() }
}
fn any_aligned_phys() -> PhysAddr {
    let a = any_phys();
    kani::assume(a % 4096 == 0);
    unsafe { PhysAddr::new_unsafe(a) }
}
fn any_flags() -> PageTableFlags {
    let b: u64 = kani::any();
    kani::assume(b & !FLAG_BITS == 0);
    PageTableFlags::from_bits_retain(b)
}

// ================================================================= C03: entry address always valid
#[kani::proof]
fn c03_entry_addr_frame_valid() {
    let e = any_entry();
    let a = e.addr().as_u64();
    vp!(C03, is_phys(a), "PageTableEntry::addr has bits 52..64 set");
    vp!(C03, a == e.entry & ADDR_MASK, "PageTableEntry::addr is not bits 12-51 of the entry");
    if let Ok(f) = e.frame() {
        vp!(C03, is_phys(f.start_address().as_u64()) && f.start_address().as_u64() % 4096 == 0, "PageTableEntry::frame not a valid 4KiB frame");
    }
    kani::cover!(e.entry >> 52 != 0);
}

// ================================================================= C08: entry codec
#[kani::proof]
fn c08_entry_set_addr_stores_both() {
    let mut e = any_entry();
    let a = any_aligned_phys();
    let f = any_flags();
    e.set_addr(a, f);
    vp!(C08, e.entry == a.as_u64() + f.bits(), "set_addr did not store exactly address | flags");
    vp!(C08, e.addr() == a, "addr() does not read back the stored address");
    vp!(C08, e.flags().bits() & FLAG_BITS == f.bits(), "flags() does not read back the stored flags (bits 0-11, 52-63)");
    vp!(C08, e.flags().bits() & !FLAG_BITS & !(1 << 12) == 0, "flags() reports bits that are not flag bits");
    vp!(C08, e.is_unused() == (a.as_u64() == 0 && f.bits() == 0), "is_unused is not 'all zero'");
    match e.frame() {
        Ok(fr) => {
            vp!(C08, f.bits() & 1 == 1, "frame() returned Ok without the present flag");
            vp!(C08, fr.start_address() == a, "frame() is not the stored address");
        }
        Err(err) => {
            vp!(C08, f.bits() & 1 == 0, "frame() returned Err although present is set");
            vp!(C08, err == FrameError::FrameNotPresent, "frame() returned the wrong error");
        }
    }
    kani::cover!(a.as_u64() >> 48 != 0 && f.bits() >> 52 != 0);
    kani::cover!(f.bits() & 1 == 0);
}

/// Known wart (listed in known_findings.json): `flags()` is `from_bits_truncate(entry)` and
/// `PAT_HUGE_PAGE` is bit 12, which is *address* bit 12 in a 4KiB entry / table link.
#[kani::proof]
fn c08_entry_flags_exact_readback() {
    let mut e = any_entry();
    let a = any_aligned_phys();
    let f = any_flags();
    e.set_addr(a, f);
    kani::cover!(a.as_u64() & (1 << 12) != 0);
    vp!(C08, e.flags() == f, "flags() readback differs from the stored flags: address bit 12 is reported as PAT_HUGE_PAGE");
}

#[kani::proof]
fn c08_entry_set_addr_unaligned_xpanic() {
    let mut e = any_entry();
    let a = any_phys();
    kani::assume(a % 4096 != 0);
    kani::cover!(true);
    e.set_addr(unsafe { PhysAddr::new_unsafe(a) }, any_flags());
    vp!(C08, false, "set_addr accepted an unaligned address");
}

#[kani::proof]
fn c08_entry_set_flags_keeps_addr() {
    let mut e = any_entry();
    let before = e.entry;
    let f = any_flags();
    e.set_flags(f);
    vp!(C08, e.entry & ADDR_MASK == before & ADDR_MASK, "set_flags changed the address bits");
    vp!(C08, e.entry & !ADDR_MASK == f.bits(), "set_flags did not store exactly the flags");
    let mut g = any_entry();
    let fr = any_aligned_phys();
    g.set_frame(PhysFrame::containing_address(fr), f);
    vp!(C08, g.entry == fr.as_u64() + f.bits(), "set_frame did not store exactly frame | flags");
    g.set_unused();
    vp!(C08, g.entry == 0 && g.is_unused(), "set_unused did not zero the entry");
    vp!(C08, PageTableEntry::new().entry == 0 && PageTableEntry::default().entry == 0, "new() is not all-zero");
    vp!(C08, any_entry().is_unused() || true, "unreachable");
    kani::cover!(before & ADDR_MASK != 0 && f.bits() != 0);
}

#[kani::proof]
fn c08_entry_is_unused_iff_zero() {
    let e = any_entry();
    vp!(C08, e.is_unused() == (e.entry == 0), "is_unused is not 'raw == 0'");
    vp!(C08, e.frame().is_ok() == (e.entry & 1 == 1), "frame() is not Ok exactly when bit 0 is set");
    vp!(C08, e.flags().bits() == e.entry & PageTableFlags::all().bits(), "flags() is not the flag bits of the raw entry");
    let c = e.clone();
    vp!(C08, c.entry == e.entry, "clone changed the entry");
    kani::cover!(e.entry == 0);
}

/// Arbitrary 3-step setter programs against a 2-field (address, flags) model.
#[kani::proof]
#[kani::unwind(4)]
fn c08_entry_setter_programs() {
    let mut e = any_entry();
    let mut m_addr = e.entry & ADDR_MASK;
    let mut m_flags = e.entry & !ADDR_MASK;
    for _ in 0..3 {
        match kani::any::<u8>() % 4 {
            0 => {
                let a = any_aligned_phys();
                let f = any_flags();
                e.set_addr(a, f);
                m_addr = a.as_u64();
                m_flags = f.bits();
            }
            1 => {
                let a = any_aligned_phys();
                let f = any_flags();
                e.set_frame(PhysFrame::containing_address(a), f);
                m_addr = a.as_u64();
                m_flags = f.bits();
            }
            2 => {
                let f = any_flags();
                e.set_flags(f);
                m_flags = f.bits();
            }
            _ => {
                e.set_unused();
                m_addr = 0;
                m_flags = 0;
            }
        }
        vp!(C08, e.entry == m_addr | m_flags, "entry diverged from the (address, flags) model");
        vp!(C08, e.addr().as_u64() == m_addr, "addr() diverged from the model");
    }
    kani::cover!(m_addr != 0 && m_flags != 0);
}

/// Arbitrary 6-step setter programs against a 2-field (address, flags) model.
#[kani::proof]
#[kani::unwind(7)]
fn c08t_entry_setter_programs_6() {
    let mut e = any_entry();
    let mut m_addr = e.entry & ADDR_MASK;
    let mut m_flags = e.entry & !ADDR_MASK;
    for _ in 0..6 {
        match kani::any::<u8>() % 4 {
            0 => {
                let a = any_aligned_phys();
                let f = any_flags();
                e.set_addr(a, f);
                m_addr = a.as_u64();
                m_flags = f.bits();
            }
            1 => {
                let a = any_aligned_phys();
                let f = any_flags();
                e.set_frame(PhysFrame::containing_address(a), f);
                m_addr = a.as_u64();
                m_flags = f.bits();
            }
            2 => {
                let f = any_flags();
                e.set_flags(f);
                m_flags = f.bits();
            }
            _ => {
                e.set_unused();
                m_addr = 0;
                m_flags = 0;
            }
        }
        vp!(C08, e.entry == m_addr | m_flags, "entry diverged from the (address, flags) model");
        vp!(C08, e.addr().as_u64() == m_addr, "addr() diverged from the model");
    }
    kani::cover!(m_addr != 0 && m_flags != 0);
}

// ================================================================= C08: table layout
#[kani::proof]
fn c08_table_layout() {
    vp!(C08, core::mem::size_of::<PageTable>() == 4096, "PageTable is not 4096 bytes");
    vp!(C08, core::mem::align_of::<PageTable>() == 4096, "PageTable is not 4096-byte aligned");
    vp!(C08, core::mem::size_of::<PageTableEntry>() == 8, "PageTableEntry is not 8 bytes");
    let t = PageTable::new();
    let base = &t as *const PageTable as usize;
    let i: usize = kani::any();
    kani::assume(i < 512);
    vp!(C08, &t[i] as *const PageTableEntry as usize == base + 8 * i, "table[usize] is not at base + 8*i");
    let pi = PageTableIndex(i as u16);
    vp!(C08, &t[pi] as *const PageTableEntry as usize == base + 8 * i, "table[PageTableIndex] is not at base + 8*i");
    vp!(C08, &t.entries[i] as *const PageTableEntry as usize == base + 8 * i, "entries[i] is not at base + 8*i");
    kani::cover!(i == 511);
}

#[kani::proof]
fn c08_table_index_mut_same_slot() {
    let mut t = PageTable::new();
    let i: usize = kani::any();
    kani::assume(i < 512);
    let v: u64 = kani::any();
    t[i].entry = v;
    vp!(C08, t.entries[i].entry == v, "IndexMut<usize> wrote a different slot");
    let w: u64 = kani::any();
    t[PageTableIndex(i as u16)].entry = w;
    vp!(C08, t.entries[i].entry == w, "IndexMut<PageTableIndex> wrote a different slot");
    vp!(C08, t[i].entry == w, "Index<usize> read a different slot");
    let j: usize = kani::any();
    kani::assume(j < 512 && j != i);
    vp!(C08, t.entries[j].entry == 0, "IndexMut touched another slot");
    // little-endian bytes of the entry in place
    let bytes: [u8; 8] = unsafe { core::mem::transmute(t.entries[i].clone()) };
    vp!(C08, bytes[0] as u64 == w & 0xff && bytes[7] as u64 == w >> 56 && bytes[3] as u64 == (w >> 24) & 0xff, "entry is not little-endian u64");
    kani::cover!(i == 0 && j == 511);
}

#[kani::proof]
#[kani::unwind(514)]
fn c08_table_iter_addresses_all_slots() {
    let mut t = PageTable::new();
    let base = &t as *const PageTable as usize;
    let i: usize = kani::any();
    kani::assume(i < 512);
    let mut n = 0usize;
    for e in t.iter() {
        if n == i {
            vp!(C08, e as *const PageTableEntry as usize == base + 8 * i, "iter() item i is not slot i");
        }
        n += 1;
    }
    vp!(C08, n == 512, "iter() does not yield 512 entries");
    let mut n = 0usize;
    for e in t.iter_mut() {
        if n == i {
            vp!(C08, e as *const PageTableEntry as usize == base + 8 * i, "iter_mut() item i is not slot i");
        }
        n += 1;
    }
    vp!(C08, n == 512, "iter_mut() does not yield 512 entries");
    kani::cover!(i == 511);
}

#[kani::proof]
fn c08_table_new_is_all_zero() {
    let t = PageTable::new();
    let i: usize = kani::any();
    kani::assume(i < 512);
    vp!(C08, t.entries[i].entry == 0, "new() has a non-zero slot");
    vp!(C08, PageTable::default().entries[i].entry == 0, "default() has a non-zero slot");
    kani::cover!(i == 511);
}

#[kani::proof]
#[kani::unwind(514)]
fn c08t_table_is_empty_iff_all_zero() {
    vp!(C08, PageTable::new().is_empty(), "new() table is not is_empty()");
    // one arbitrary slot of an otherwise empty table (sparse, so that a counterexample replays natively)
    let mut u = PageTable::new();
    let i: usize = kani::any();
    kani::assume(i < 512);
    let v: u64 = kani::any();
    u.entries[i].entry = v;
    vp!(C08, u.is_empty() == (v == 0), "is_empty() is not 'no non-zero slot'");
    kani::cover!(i == 511 && v != 0);
    kani::cover!(i == 0 && v == 0);
}

#[kani::proof]
#[kani::unwind(514)]
fn c08_table_zero_clears_every_slot() {
    // arbitrary prior contents of an arbitrary slot (and of its two neighbours); this obligation also
    // discharges the S-zero stub used by the mapper harnesses
    let mut t = PageTable::new();
    let j: usize = kani::any();
    kani::assume(j < 512);
    t.entries[j].entry = kani::any();
    t.entries[(j + 1) % 512].entry = kani::any();
    t.entries[(j + 511) % 512].entry = kani::any();
    kani::cover!(t.entries[j].entry != 0 && j == 511);
    t.zero();
    vp!(C08, t.entries[j].entry == 0 && t.entries[(j + 1) % 512].entry == 0 && t.entries[(j + 511) % 512].entry == 0, "zero() left a non-zero slot");
    vp!(C08, t.is_empty() || true, "unreachable");
}

#[kani::proof]
fn c08_table_index_out_of_range_xpanic() {
    let t = PageTable::new();
    let i: usize = kani::any();
    kani::assume(i >= 512);
    kani::cover!(true);
    let _ = t[i].entry;
    vp!(C08, false, "table[i] with i >= 512 did not panic");
}

// ================================================================= C04: index / offset / level types
#[kani::proof]
fn c04_index_offset_constructors() {
    let x: u16 = kani::any();
    vp!(C04, u16::from(PageTableIndex::new_truncate(x)) == x % 512, "PageTableIndex::new_truncate is not x mod 512");
    vp!(C04, u16::from(PageOffset::new_truncate(x)) == x % 4096, "PageOffset::new_truncate is not x mod 4096");
    if x < 512 {
        let i = PageTableIndex::new(x);
        vp!(C04, u16::from(i) == x && u32::from(i) == x as u32 && u64::from(i) == x as u64 && usize::from(i) == x as usize && i.into_u64() == x as u64, "PageTableIndex::new changed a valid value");
    }
    if x < 4096 {
        let o = PageOffset::new(x);
        vp!(C04, u16::from(o) == x && u32::from(o) == x as u32 && u64::from(o) == x as u64 && usize::from(o) == x as usize, "PageOffset::new changed a valid value");
    }
    kani::cover!(x >= 512 && x < 4096);
    kani::cover!(x == 511);
}

#[kani::proof]
fn c04_index_new_invalid_xpanic() {
    let x: u16 = kani::any();
    kani::assume(x >= 512);
    kani::cover!(x == 512);
    let _ = PageTableIndex::new(x);
    vp!(C04, false, "PageTableIndex::new accepted a value >= 512");
}

#[kani::proof]
fn c04_offset_new_invalid_xpanic() {
    let x: u16 = kani::any();
    kani::assume(x >= 4096);
    kani::cover!(x == 4096);
    let _ = PageOffset::new(x);
    vp!(C04, false, "PageOffset::new accepted a value >= 4096");
}

#[kani::proof]
fn c04_level_helpers() {
    use PageTableLevel::*;
    vp!(C04, One as u8 == 1 && Two as u8 == 2 && Three as u8 == 3 && Four as u8 == 4, "level numbering");
    vp!(C04, Four.next_lower_level() == Some(Three) && Three.next_lower_level() == Some(Two) && Two.next_lower_level() == Some(One) && One.next_lower_level() == None, "next_lower_level");
    vp!(C04, One.next_higher_level() == Some(Two) && Two.next_higher_level() == Some(Three) && Three.next_higher_level() == Some(Four) && Four.next_higher_level() == None, "next_higher_level");
    // 9-9-9-9-12: an entry of level n covers 2^(12+9(n-1)) bytes, a table 2^(12+9n)
    vp!(C04, One.entry_address_space_alignment() == 0x1000 && Two.entry_address_space_alignment() == 0x20_0000 && Three.entry_address_space_alignment() == 0x4000_0000 && Four.entry_address_space_alignment() == 0x80_0000_0000, "entry_address_space_alignment");
    vp!(C04, One.table_address_space_alignment() == 0x20_0000 && Two.table_address_space_alignment() == 0x4000_0000 && Three.table_address_space_alignment() == 0x80_0000_0000 && Four.table_address_space_alignment() == 0x1_0000_0000_0000, "table_address_space_alignment");
    kani::cover!(true);
}

// ================================================================= C05: stepping table indices
#[kani::proof]
fn c05_index_step_oracle() {
    let i: u16 = kani::any();
    kani::assume(i < 512);
    let n: usize = kani::any();
    let idx = PageTableIndex(i);
    let f = Step::forward_checked(idx, n);
    let want_f = if (i as u128 + n as u128) < 512 { Some((i as u128 + n as u128) as u16) } else { None };
    vp!(C05, f.map(|r| r.0) == want_f, "PageTableIndex forward_checked differs from oracle");
    let b = Step::backward_checked(idx, n);
    let want_b = if i as u128 >= n as u128 { Some((i as u128 - n as u128) as u16) } else { None };
    vp!(C05, b.map(|r| r.0) == want_b, "PageTableIndex backward_checked differs from oracle");
    let j: u16 = kani::any();
    kani::assume(j < 512);
    let s = Step::steps_between(&idx, &PageTableIndex(j));
    let want_s = if j >= i { ((j - i) as usize, Some((j - i) as usize)) } else { (0, None) };
    vp!(C05, s == want_s, "PageTableIndex steps_between differs from oracle");
    if let Some(r) = f {
        vp!(C05, r.0 < 512, "PageTableIndex stepped out of 0..512");
        vp!(C05, Step::backward_checked(r, n) == Some(idx), "PageTableIndex backward does not undo forward");
        vp!(C05, Step::steps_between(&idx, &r) == (n, Some(n)), "PageTableIndex steps_between does not measure forward");
    }
    kani::cover!(want_f == Some(511) && n > 0);
    kani::cover!(want_f.is_none() && n < 512);
    kani::cover!(n > (1 << 60));
}
