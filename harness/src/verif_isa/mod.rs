//! ISA model for the crate's inline assembly (DESIGN.md 2.3).
//!
//! `crate::verif_isa::asm!` shadows `core::arch::asm!` in the overlay (edit O2).  It is a table of
//! macro arms, one per assembly template that exists in the crate, keyed by the *template text* and
//! the *operand register classes*; each arm applies the instruction's architectural semantics
//! (written from the SDM / APM instruction pages) to the emulated machine `M` and records the
//! instruction with its operands in an event log.  A template or operand shape that has no arm is a
//! compile error of the overlay, which the runner reports as inconclusive -- never as a pass.
//!
//! The model is ordinary Rust, so counterexamples replay natively in user space.
#![allow(dead_code, unused_macros, unused_imports)]

pub const N_MSR: usize = 4;
pub const N_LOG: usize = 12;
pub const N_STACK: usize = 8;

// ---- event kinds
pub const EV_NONE: u8 = 0;
pub const EV_INVLPG: u8 = 1;
pub const EV_INVPCID: u8 = 2;
pub const EV_INVLPGB: u8 = 3;
pub const EV_TLBSYNC: u8 = 4;
pub const EV_IN: u8 = 5; // a = width bits, b = port (DX), c = value delivered
pub const EV_OUT: u8 = 6; // a = width bits, b = port (DX), c = value written (AL/AX/EAX)
pub const EV_CLI: u8 = 7;
pub const EV_STI: u8 = 8;
pub const EV_HLT: u8 = 9;
pub const EV_INT3: u8 = 10;
pub const EV_INT: u8 = 11;
pub const EV_SWAPGS: u8 = 12;
pub const EV_LTR: u8 = 13;
pub const EV_LGDT: u8 = 14;
pub const EV_LIDT: u8 = 15;
pub const EV_WRMSR: u8 = 16; // a = ecx, b = value
pub const EV_RDMSR: u8 = 17;
pub const EV_MOV_TO_CR: u8 = 18; // a = n, b = value
pub const EV_MOV_FROM_CR: u8 = 19;
pub const EV_MOV_TO_DR: u8 = 20;
pub const EV_MOV_FROM_DR: u8 = 21;
pub const EV_XSETBV: u8 = 22;
pub const EV_XGETBV: u8 = 23;
pub const EV_MOV_TO_SREG: u8 = 24; // a = sreg id, b = selector
pub const EV_MOV_FROM_SREG: u8 = 25;
pub const EV_WRBASE: u8 = 26; // a = sreg id (4 fs / 5 gs), b = value
pub const EV_RDBASE: u8 = 27;
pub const EV_RETFQ: u8 = 28; // a = new cs, b = target
pub const EV_IRETQ: u8 = 29;
pub const EV_PUSHFQ: u8 = 30;
pub const EV_POPFQ: u8 = 31;
pub const EV_NOP: u8 = 32;
pub const EV_XCHG_BX: u8 = 33;
pub const EV_LEA_RIP: u8 = 34;
pub const EV_SGDT: u8 = 35;
pub const EV_SIDT: u8 = 36;
pub const EV_STMXCSR: u8 = 37;
pub const EV_LDMXCSR: u8 = 38;

// ---- asm block option bits (recorded per event)
pub const OPT_PURE: u8 = 1;
pub const OPT_NOMEM: u8 = 2;
pub const OPT_READONLY: u8 = 4;
pub const OPT_PRESERVES_FLAGS: u8 = 8;
pub const OPT_NORETURN: u8 = 16;
pub const OPT_NOSTACK: u8 = 32;

// ---- segment register ids (SDM vol.2 "sreg" encoding)
pub const ES: usize = 0;
pub const CS: usize = 1;
pub const SS: usize = 2;
pub const DS: usize = 3;
pub const FS: usize = 4;
pub const GS: usize = 5;

// ---- architectural MSR numbers that alias other register state (SDM vol.4 table 2-2)
pub const IA32_FS_BASE: u32 = 0xC000_0100;
pub const IA32_GS_BASE: u32 = 0xC000_0101;
pub const IA32_KERNEL_GS_BASE: u32 = 0xC000_0102;

/// label value pushed by `lea {tmp}, [55f + rip]` (opaque code address)
pub const LABEL_55: u64 = 0x0000_5555_0000_0055;

#[derive(Clone, Copy, PartialEq, Eq)]
pub struct Event {
    pub kind: u8,
    pub a: u64,
    pub b: u64,
    pub c: u64,
    pub block: u32,
    pub opts: u8,
}
pub const NO_EVENT: Event = Event { kind: EV_NONE, a: 0, b: 0, c: 0, block: 0, opts: 0 };

#[derive(Clone, Copy)]
pub struct Machine {
    pub cr: [u64; 5], // cr0, -, cr2, cr3, cr4
    pub dr: [u64; 8],
    pub xcr0: u64,
    pub msr_idx: [u32; N_MSR],
    pub msr_val: [u64; N_MSR],
    pub unexpected_msr: bool,
    pub unexpected_xcr: bool,
    pub seg: [u16; 6],
    pub fs_base: u64,
    pub gs_base: u64,
    pub kernel_gs_base: u64,
    pub tr: u16,
    pub gdtr_base: u64,
    pub gdtr_limit: u16,
    pub idtr_base: u64,
    pub idtr_limit: u16,
    pub rflags: u64,
    pub mxcsr: u32,
    pub rip_opaque: u64,
    /// value the device behind the next `in` supplies (full EAX; AL/AX are its low bits)
    pub port_in: u32,
    // ---- bookkeeping (not architectural)
    pub stack: [u64; N_STACK],
    pub sp: usize,
    pub stack_fault: bool,
    /// a block's `options(..)` promise something its instructions break (see `opt_rule`)
    pub opt_fault: bool,
    pub log: [Event; N_LOG],
    pub nlog: usize,
    pub log_overflow: bool,
    pub block: u32,
    pub iret_frame: [u64; 5], // rip, cs, rflags, rsp, ss as popped by iretq
    pub iret_done: bool,
    pub iret_expect: [u64; 5],
    pub iret_expect_on: bool,
    /// harness hook called for every INVLPGB request (request number, rax, ecx, edx)
    pub on_invlpgb: Option<fn(usize, u64, u32, u32)>,
    /// after this many INVLPGB requests the path is cut (induction over the rest of the range)
    pub invlpgb_limit: usize,
    pub n_invlpgb: usize,
}

pub const RESET: Machine = Machine {
    cr: [0; 5],
    dr: [0; 8],
    xcr0: 1,
    msr_idx: [0; N_MSR],
    msr_val: [0; N_MSR],
    unexpected_msr: false,
    unexpected_xcr: false,
    seg: [0; 6],
    fs_base: 0,
    gs_base: 0,
    kernel_gs_base: 0,
    tr: 0,
    gdtr_base: 0,
    gdtr_limit: 0,
    idtr_base: 0,
    idtr_limit: 0,
    rflags: 2,
    mxcsr: 0x1f80,
    rip_opaque: 0,
    port_in: 0,
    stack: [0; N_STACK],
    sp: 0,
    stack_fault: false,
    opt_fault: false,
    log: [NO_EVENT; N_LOG],
    nlog: 0,
    log_overflow: false,
    block: 0,
    iret_frame: [0; 5],
    iret_done: false,
    iret_expect: [0; 5],
    iret_expect_on: false,
    on_invlpgb: None,
    invlpgb_limit: usize::MAX,
    n_invlpgb: 0,
};

pub static mut M: Machine = RESET;

#[inline(always)]
pub fn m() -> &'static mut Machine {
    unsafe { &mut *core::ptr::addr_of_mut!(M) }
}

impl Machine {
    /// Architectural state equal (everything except the log / bookkeeping).
    pub fn arch_eq(&self, o: &Machine) -> bool {
        self.cr == o.cr
            && self.dr == o.dr
            && self.xcr0 == o.xcr0
            && self.msr_idx == o.msr_idx
            && self.msr_val == o.msr_val
            && self.seg == o.seg
            && self.fs_base == o.fs_base
            && self.gs_base == o.gs_base
            && self.kernel_gs_base == o.kernel_gs_base
            && self.tr == o.tr
            && self.gdtr_base == o.gdtr_base
            && self.gdtr_limit == o.gdtr_limit
            && self.idtr_base == o.idtr_base
            && self.idtr_limit == o.idtr_limit
            && self.rflags == o.rflags
            && self.mxcsr == o.mxcsr
    }
    pub fn clean(&self) -> bool {
        !self.unexpected_msr && !self.unexpected_xcr && !self.stack_fault && !self.opt_fault && !self.log_overflow
    }
    fn ev(&mut self, kind: u8, a: u64, b: u64, c: u64, opts: u8) {
        if self.nlog < N_LOG {
            self.log[self.nlog] = Event { kind, a, b, c, block: self.block, opts };
            self.nlog += 1;
        } else {
            self.log_overflow = true;
        }
    }
    /// What `options(..)` may not promise for an instruction: `kind` 0 = the instruction writes memory (no `nomem`,
    /// no `readonly`), 1 = it reads memory (no `nomem`), 2 = it invalidates translations, so the compiler must not
    /// move page-table stores across it (no `nomem`, `readonly` or `pure`: the block has to be a memory barrier).
    /// The unchanged crate satisfies all three (`tlbsync`, which upstream marks `nomem`, is not subject to rule 2).
    fn opt_rule(&mut self, kind: u8, o: u8) {
        let bad = match kind {
            0 => o & (OPT_NOMEM | OPT_READONLY | OPT_PURE) != 0,
            1 => o & OPT_NOMEM != 0,
            _ => o & (OPT_NOMEM | OPT_READONLY | OPT_PURE) != 0,
        };
        if bad {
            self.opt_fault = true;
        }
    }
    pub fn begin_block(&mut self) {
        self.block += 1;
    }
    /// A stack access inside a block that declares `nostack` is a fault: the compiler may have placed data
    /// in the red zone below RSP, which the push overwrites.
    fn push(&mut self, v: u64, o: u8) {
        if o & OPT_NOSTACK != 0 {
            self.stack_fault = true;
        }
        if self.sp < N_STACK {
            self.stack[self.sp] = v;
            self.sp += 1;
        } else {
            self.stack_fault = true;
        }
    }
    fn pop(&mut self, o: u8) -> u64 {
        if o & OPT_NOSTACK != 0 {
            self.stack_fault = true;
        }
        if self.sp > 0 {
            self.sp -= 1;
            self.stack[self.sp]
        } else {
            self.stack_fault = true;
            0
        }
    }
    /// number of logged events of a kind
    pub fn count(&self, kind: u8) -> usize {
        let mut n = 0;
        let mut i = 0;
        while i < N_LOG {
            if i < self.nlog && self.log[i].kind == kind {
                n += 1;
            }
            i += 1;
        }
        n
    }
    pub fn last(&self) -> Event {
        if self.nlog == 0 {
            NO_EVENT
        } else {
            self.log[self.nlog - 1]
        }
    }

    // ------------------------------------------------------------------ instruction semantics
    // MOV to/from control registers: SDM vol.2B "MOV—Move to/from Control Registers" (full 64 bits)
    pub fn mov_from_cr(&mut self, n: usize, o: u8) -> u64 {
        let v = self.cr[n];
        self.ev(EV_MOV_FROM_CR, n as u64, v, 0, o);
        v
    }
    pub fn mov_to_cr(&mut self, n: usize, v: u64, o: u8) {
        if n == 3 {
            self.opt_rule(2, o); // a CR3 load flushes the TLB
        }
        self.cr[n] = v;
        self.ev(EV_MOV_TO_CR, n as u64, v, 0, o);
    }
    pub fn mov_from_dr(&mut self, n: usize, o: u8) -> u64 {
        let v = self.dr[n];
        self.ev(EV_MOV_FROM_DR, n as u64, v, 0, o);
        v
    }
    pub fn mov_to_dr(&mut self, n: usize, v: u64, o: u8) {
        self.dr[n] = v;
        self.ev(EV_MOV_TO_DR, n as u64, v, 0, o);
    }
    // RDMSR/WRMSR: ECX = index, EDX:EAX = value (SDM vol.2B); upper halves of RAX/RDX ignored
    fn msr_slot(&mut self, idx: u32) -> Option<usize> {
        let mut i = 0;
        while i < N_MSR {
            if self.msr_idx[i] == idx {
                return Some(i);
            }
            i += 1;
        }
        None
    }
    pub fn rdmsr(&mut self, ecx: u32, o: u8) -> (u32, u32) {
        let v = match ecx {
            IA32_FS_BASE => self.fs_base,
            IA32_GS_BASE => self.gs_base,
            IA32_KERNEL_GS_BASE => self.kernel_gs_base,
            _ => match self.msr_slot(ecx) {
                Some(i) => self.msr_val[i],
                None => {
                    self.unexpected_msr = true;
                    0
                }
            },
        };
        self.ev(EV_RDMSR, ecx as u64, v, 0, o);
        (v as u32, (v >> 32) as u32) // (eax, edx)
    }
    pub fn wrmsr(&mut self, ecx: u32, eax: u32, edx: u32, o: u8) {
        let v = ((edx as u64) << 32) | eax as u64;
        match ecx {
            IA32_FS_BASE => self.fs_base = v,
            IA32_GS_BASE => self.gs_base = v,
            IA32_KERNEL_GS_BASE => self.kernel_gs_base = v,
            _ => match self.msr_slot(ecx) {
                Some(i) => self.msr_val[i] = v,
                None => self.unexpected_msr = true,
            },
        }
        self.ev(EV_WRMSR, ecx as u64, v, 0, o);
    }
    // XGETBV/XSETBV: ECX = XCR index, EDX:EAX = value; only XCR0 is modelled
    pub fn xgetbv(&mut self, ecx: u32, o: u8) -> (u64, u64) {
        if ecx != 0 {
            self.unexpected_xcr = true;
        }
        let v = self.xcr0;
        self.ev(EV_XGETBV, ecx as u64, v, 0, o);
        (v & 0xffff_ffff, v >> 32) // (rax, rdx): upper halves cleared
    }
    pub fn xsetbv(&mut self, ecx: u32, rax: u64, rdx: u64, o: u8) {
        if ecx != 0 {
            self.unexpected_xcr = true;
        }
        let v = ((rdx & 0xffff_ffff) << 32) | (rax & 0xffff_ffff);
        self.xcr0 = v;
        self.ev(EV_XSETBV, ecx as u64, v, 0, o);
    }
    pub fn mov_from_sreg(&mut self, s: usize, o: u8) -> u16 {
        let v = self.seg[s];
        self.ev(EV_MOV_FROM_SREG, s as u64, v as u64, 0, o);
        v
    }
    pub fn mov_to_sreg(&mut self, s: usize, v: u16, o: u8) {
        self.seg[s] = v;
        self.ev(EV_MOV_TO_SREG, s as u64, v as u64, 0, o);
    }
    pub fn rdbase(&mut self, s: usize, o: u8) -> u64 {
        let v = if s == FS { self.fs_base } else { self.gs_base };
        self.ev(EV_RDBASE, s as u64, v, 0, o);
        v
    }
    pub fn wrbase(&mut self, s: usize, v: u64, o: u8) {
        if s == FS {
            self.fs_base = v
        } else {
            self.gs_base = v
        }
        self.ev(EV_WRBASE, s as u64, v, 0, o);
    }
    pub fn swapgs(&mut self, o: u8) {
        core::mem::swap(&mut self.gs_base, &mut self.kernel_gs_base);
        self.ev(EV_SWAPGS, 0, 0, 0, o);
    }
    /// `push sel; lea tmp,[55f+rip]; push tmp; retfq; 55:` -- RETFQ pops RIP then CS (SDM vol.2B RET far)
    pub fn far_return_sequence(&mut self, sel: u64, o: u8) {
        self.op_push(sel, o);
        self.op_push(LABEL_55, o);
        self.op_retfq(true, o);
    }
    // ---- stack micro-operations (used by the composite sequences above/below and by the generic lifter)
    pub fn op_push(&mut self, v: u64, o: u8) {
        self.push(v, o);
    }
    pub fn op_pop(&mut self, o: u8) -> u64 {
        self.pop(o)
    }
    pub fn op_pushfq(&mut self, o: u8) {
        let f = self.rflags;
        self.push(f, o);
        self.ev(EV_PUSHFQ, f, 0, 0, o);
    }
    /// POPFQ at CPL 0: every writable flag is written
    pub fn op_popfq(&mut self, o: u8) {
        let f = self.pop(o);
        self.rflags = f;
        self.ev(EV_POPFQ, f, 0, 0, o);
    }
    /// RETFQ pops RIP then CS; `lands_on_next`: the popped RIP is checked by the harness against the label that
    /// directly follows the instruction (anything else leaves the block)
    pub fn op_retfq(&mut self, lands_on_next: bool, o: u8) {
        let target = self.pop(o);
        let cs = self.pop(o);
        self.seg[CS] = cs as u16;
        self.ev(EV_RETFQ, cs & 0xffff, if lands_on_next { target } else { !0 }, 0, o);
    }
    /// IRETQ pops RIP, CS, RFLAGS, RSP, SS
    pub fn op_iretq(&mut self, o: u8) {
        let f = [self.pop(o), self.pop(o), self.pop(o), self.pop(o), self.pop(o)];
        self.iret_frame = f;
        self.iret_done = true;
        self.ev(EV_IRETQ, f[0], f[1], f[2], o);
        if self.iret_expect_on {
            // the code segment / stack segment operands are 16-bit selectors zero-extended by `push r64`
            crate::verif_oracle::vp!(C13, f == self.iret_expect, "iretq did not pop exactly the frame's RIP, CS, RFLAGS, RSP, SS");
            crate::verif_oracle::vp!(C13, self.sp == 0 && !self.stack_fault, "iretq sequence left the stack unbalanced");
        }
    }
    pub fn ltr(&mut self, sel: u16, o: u8) {
        self.tr = sel;
        self.ev(EV_LTR, sel as u64, 0, 0, o);
    }
    /// LGDT/LIDT m16&64: limit = bytes 0-1, base = bytes 2-9 of the operand (SDM vol.2A LGDT/LIDT)
    pub fn lgdt(&mut self, addr: u64, o: u8) {
        self.opt_rule(1, o);
        let (limit, base) = read_pseudo_descriptor(addr);
        self.gdtr_base = base;
        self.gdtr_limit = limit;
        self.ev(EV_LGDT, addr, base, limit as u64, o);
    }
    pub fn lidt(&mut self, addr: u64, o: u8) {
        self.opt_rule(1, o);
        let (limit, base) = read_pseudo_descriptor(addr);
        self.idtr_base = base;
        self.idtr_limit = limit;
        self.ev(EV_LIDT, addr, base, limit as u64, o);
    }
    pub fn sgdt(&mut self, addr: u64, o: u8) {
        self.opt_rule(0, o);
        write_pseudo_descriptor(addr, self.gdtr_limit, self.gdtr_base);
        self.ev(EV_SGDT, addr, 0, 0, o);
    }
    pub fn sidt(&mut self, addr: u64, o: u8) {
        self.opt_rule(0, o);
        write_pseudo_descriptor(addr, self.idtr_limit, self.idtr_base);
        self.ev(EV_SIDT, addr, 0, 0, o);
    }
    pub fn invlpg(&mut self, addr: u64, o: u8) {
        self.opt_rule(2, o);
        self.ev(EV_INVLPG, addr, 0, 0, o);
    }
    /// INVPCID r64, m128: descriptor = PCID in bits 0-11 of the first qword, linear address in the second
    pub fn invpcid(&mut self, kind: u64, desc_addr: u64, o: u8) {
        self.opt_rule(2, o);
        let d = unsafe { core::ptr::read_unaligned(desc_addr as *const [u64; 2]) };
        self.ev(EV_INVPCID, kind, d[0], d[1], o);
    }
    pub fn invlpgb(&mut self, rax: u64, ecx: u32, edx: u32, o: u8) {
        self.opt_rule(2, o);
        if self.n_invlpgb >= self.invlpgb_limit {
            cut_path();
        }
        if let Some(f) = self.on_invlpgb {
            f(self.n_invlpgb, rax, ecx, edx);
        }
        self.n_invlpgb += 1;
        if self.n_invlpgb <= N_LOG / 2 {
            self.ev(EV_INVLPGB, rax, ecx as u64, edx as u64, o);
        }
    }
    pub fn tlbsync(&mut self, o: u8) {
        self.ev(EV_TLBSYNC, 0, 0, 0, o);
    }
    // IN/OUT with DX port (SDM vol.2A IN, vol.2B OUT)
    pub fn port_in(&mut self, width: u32, dx: u16, o: u8) -> u32 {
        let v = match width {
            8 => self.port_in & 0xff,
            16 => self.port_in & 0xffff,
            _ => self.port_in,
        };
        self.ev(EV_IN, width as u64, dx as u64, v as u64, o);
        v
    }
    pub fn port_out(&mut self, width: u32, dx: u16, v: u32, o: u8) {
        self.ev(EV_OUT, width as u64, dx as u64, v as u64, o);
    }
    pub fn cli(&mut self, o: u8) {
        self.rflags &= !(1 << 9);
        self.ev(EV_CLI, 0, 0, 0, o);
    }
    pub fn sti(&mut self, o: u8) {
        self.rflags |= 1 << 9;
        self.ev(EV_STI, 0, 0, 0, o);
    }
    pub fn hlt(&mut self, o: u8) {
        self.ev(EV_HLT, 0, 0, 0, o);
    }
    pub fn nop(&mut self, o: u8) {
        self.ev(EV_NOP, 0, 0, 0, o);
    }
    pub fn xchg_bx_bx(&mut self, o: u8) {
        self.ev(EV_XCHG_BX, 0, 0, 0, o);
    }
    pub fn int3(&mut self, o: u8) {
        self.ev(EV_INT3, 0, 0, 0, o);
    }
    pub fn int_n(&mut self, n: u64, o: u8) {
        self.ev(EV_INT, n, 0, 0, o);
    }
    pub fn lea_rip(&mut self, o: u8) -> u64 {
        self.ev(EV_LEA_RIP, 0, 0, 0, o);
        self.rip_opaque
    }
    /// `pushfq; pop r`
    pub fn pushfq_pop(&mut self, o: u8) -> u64 {
        self.op_pushfq(o);
        self.op_pop(o)
    }
    /// `push r; popfq`
    pub fn push_popfq(&mut self, v: u64, o: u8) {
        self.op_push(v, o);
        self.op_popfq(o);
    }
    pub fn stmxcsr(&mut self, addr: u64, o: u8) {
        self.opt_rule(0, o);
        unsafe { core::ptr::write_unaligned(addr as *mut u32, self.mxcsr) };
        self.ev(EV_STMXCSR, addr, self.mxcsr as u64, 0, o);
    }
    pub fn ldmxcsr(&mut self, addr: u64, o: u8) {
        self.opt_rule(1, o);
        self.mxcsr = unsafe { core::ptr::read_unaligned(addr as *const u32) };
        self.ev(EV_LDMXCSR, addr, self.mxcsr as u64, 0, o);
    }
    /// `push ss; push rsp; push rflags; push cs; push rip; iretq`
    pub fn push5_iretq(&mut self, ss: u64, rsp: u64, rflags: u64, cs: u64, rip: u64, o: u8) {
        self.op_push(ss, o);
        self.op_push(rsp, o);
        self.op_push(rflags, o);
        self.op_push(cs, o);
        self.op_push(rip, o);
        self.op_iretq(o);
    }
}

fn read_pseudo_descriptor(addr: u64) -> (u16, u64) {
    unsafe {
        let limit = core::ptr::read_unaligned(addr as *const u16);
        let base = core::ptr::read_unaligned((addr + 2) as *const u64);
        (limit, base)
    }
}
fn write_pseudo_descriptor(addr: u64, limit: u16, base: u64) {
    unsafe {
        core::ptr::write_unaligned(addr as *mut u16, limit);
        core::ptr::write_unaligned((addr + 2) as *mut u64, base);
    }
}

/// End the current path (bounded exploration of an unbounded request loop).
pub fn cut_path() {
    #[cfg(kani)]
    kani::assume(false);
    #[cfg(not(kani))]
    panic!("verif_isa: path cut (request limit reached)");
}

/// Called after a `noreturn` block: the real instruction never falls through.
pub fn diverge() -> ! {
    #[cfg(kani)]
    kani::assume(false);
    loop {
        core::hint::spin_loop();
        #[cfg(not(kani))]
        panic!("verif_isa: control reached the end of a noreturn asm block (iretq executed)");
    }
}

// ---------------------------------------------------------------------- operand conversions
pub trait ToU64 {
    fn to_u64(self) -> u64;
}
macro_rules! to_u64_int {
    ($($t:ty),*) => {$(impl ToU64 for $t { #[inline(always)] fn to_u64(self) -> u64 { self as u64 } })*};
}
to_u64_int!(u8, u16, u32, u64, usize, i32);
impl<T> ToU64 for &T {
    #[inline(always)]
    fn to_u64(self) -> u64 {
        self as *const T as u64
    }
}
impl<T> ToU64 for &mut T {
    #[inline(always)]
    fn to_u64(self) -> u64 {
        self as *mut T as u64
    }
}
impl<T> ToU64 for *const T {
    #[inline(always)]
    fn to_u64(self) -> u64 {
        self as u64
    }
}
impl<T> ToU64 for *mut T {
    #[inline(always)]
    fn to_u64(self) -> u64 {
        self as u64
    }
}
/// An output register is truncated to the Rust type of the variable bound to it.
pub trait FromU64 {
    fn from_u64(v: u64) -> Self;
}
macro_rules! from_u64_int {
    ($($t:ty),*) => {$(impl FromU64 for $t { #[inline(always)] fn from_u64(v: u64) -> Self { v as $t } })*};
}
from_u64_int!(u8, u16, u32, u64, usize);

// ---------------------------------------------------------------------- helper macros
macro_rules! __opts {
    () => { 0u8 };
    (pure $(, $($r:tt)*)?) => { $crate::verif_isa::OPT_PURE | $crate::verif_isa::__opts!($($($r)*)?) };
    (nomem $(, $($r:tt)*)?) => { $crate::verif_isa::OPT_NOMEM | $crate::verif_isa::__opts!($($($r)*)?) };
    (readonly $(, $($r:tt)*)?) => { $crate::verif_isa::OPT_READONLY | $crate::verif_isa::__opts!($($($r)*)?) };
    (preserves_flags $(, $($r:tt)*)?) => { $crate::verif_isa::OPT_PRESERVES_FLAGS | $crate::verif_isa::__opts!($($($r)*)?) };
    (noreturn $(, $($r:tt)*)?) => { $crate::verif_isa::OPT_NORETURN | $crate::verif_isa::__opts!($($($r)*)?) };
    (nostack $(, $($r:tt)*)?) => { $crate::verif_isa::OPT_NOSTACK | $crate::verif_isa::__opts!($($($r)*)?) };
}
pub(crate) use __opts;

/// Register-name dispatch happens in const evaluation: the crate passes the names as `$name:literal`
/// fragments, which are opaque to nested macro matchers.
pub const fn sreg_id(name: &str) -> usize {
    match name.as_bytes() {
        [b'e', b's'] => ES,
        [b'c', b's'] => CS,
        [b's', b's'] => SS,
        [b'd', b's'] => DS,
        [b'f', b's'] => FS,
        [b'g', b's'] => GS,
        _ => panic!("verif_isa: unknown segment register name"),
    }
}
pub const fn dreg_id(name: &str) -> usize {
    match name.as_bytes() {
        [b'd', b'r', b'0'] => 0,
        [b'd', b'r', b'1'] => 1,
        [b'd', b'r', b'2'] => 2,
        [b'd', b'r', b'3'] => 3,
        [b'd', b'r', b'6'] => 6,
        [b'd', b'r', b'7'] => 7,
        _ => panic!("verif_isa: unknown debug register name"),
    }
}
macro_rules! __sreg {
    ($n:tt) => {{ const ID: usize = $crate::verif_isa::sreg_id($n); ID }};
}
pub(crate) use __sreg;
macro_rules! __dreg {
    ($n:tt) => {{ const ID: usize = $crate::verif_isa::dreg_id($n); ID }};
}
pub(crate) use __dreg;

macro_rules! __blk {
    ($m:ident, $o:ident, [$($opt:tt)*], $body:block) => {{
        #[allow(unused_variables, unused_mut)]
        let $m = $crate::verif_isa::m();
        $m.begin_block();
        #[allow(unused_variables)]
        let $o: u8 = $crate::verif_isa::__opts!($($opt)*);
        $body
    }};
}
pub(crate) use __blk;

/// The shadow of `core::arch::asm!`.
macro_rules! asm {
    // ------------------------------------------------ control registers
    ("mov {}, cr0", out(reg) $v:ident, options($($o:tt)*) $(,)?) => { $crate::verif_isa::__blk!(m, o, [$($o)*], { $v = $crate::verif_isa::FromU64::from_u64(m.mov_from_cr(0, o)); }) };
    ("mov {}, cr2", out(reg) $v:ident, options($($o:tt)*) $(,)?) => { $crate::verif_isa::__blk!(m, o, [$($o)*], { $v = $crate::verif_isa::FromU64::from_u64(m.mov_from_cr(2, o)); }) };
    ("mov {}, cr3", out(reg) $v:ident, options($($o:tt)*) $(,)?) => { $crate::verif_isa::__blk!(m, o, [$($o)*], { $v = $crate::verif_isa::FromU64::from_u64(m.mov_from_cr(3, o)); }) };
    ("mov {}, cr4", out(reg) $v:ident, options($($o:tt)*) $(,)?) => { $crate::verif_isa::__blk!(m, o, [$($o)*], { $v = $crate::verif_isa::FromU64::from_u64(m.mov_from_cr(4, o)); }) };
    ("mov cr0, {}", in(reg) $e:expr, options($($o:tt)*) $(,)?) => { $crate::verif_isa::__blk!(m, o, [$($o)*], { let v = $crate::verif_isa::ToU64::to_u64($e); m.mov_to_cr(0, v, o); }) };
    ("mov cr2, {}", in(reg) $e:expr, options($($o:tt)*) $(,)?) => { $crate::verif_isa::__blk!(m, o, [$($o)*], { let v = $crate::verif_isa::ToU64::to_u64($e); m.mov_to_cr(2, v, o); }) };
    ("mov cr3, {}", in(reg) $e:expr, options($($o:tt)*) $(,)?) => { $crate::verif_isa::__blk!(m, o, [$($o)*], { let v = $crate::verif_isa::ToU64::to_u64($e); m.mov_to_cr(3, v, o); }) };
    ("mov cr4, {}", in(reg) $e:expr, options($($o:tt)*) $(,)?) => { $crate::verif_isa::__blk!(m, o, [$($o)*], { let v = $crate::verif_isa::ToU64::to_u64($e); m.mov_to_cr(4, v, o); }) };
    // ------------------------------------------------ debug registers
    (concat!("mov {}, ", $n:tt), out(reg) $v:ident, options($($o:tt)*) $(,)?) => { $crate::verif_isa::__blk!(m, o, [$($o)*], { $v = $crate::verif_isa::FromU64::from_u64(m.mov_from_dr($crate::verif_isa::__dreg!($n), o)); }) };
    (concat!("mov ", $n:tt, ", {}"), in(reg) $e:expr, options($($o:tt)*) $(,)?) => { $crate::verif_isa::__blk!(m, o, [$($o)*], { let v = $crate::verif_isa::ToU64::to_u64($e); m.mov_to_dr($crate::verif_isa::__dreg!($n), v, o); }) };
    ("mov {}, dr6", out(reg) $v:ident, options($($o:tt)*) $(,)?) => { $crate::verif_isa::__blk!(m, o, [$($o)*], { $v = $crate::verif_isa::FromU64::from_u64(m.mov_from_dr(6, o)); }) };
    ("mov {}, dr7", out(reg) $v:ident, options($($o:tt)*) $(,)?) => { $crate::verif_isa::__blk!(m, o, [$($o)*], { $v = $crate::verif_isa::FromU64::from_u64(m.mov_from_dr(7, o)); }) };
    ("mov dr7, {}", in(reg) $e:expr, options($($o:tt)*) $(,)?) => { $crate::verif_isa::__blk!(m, o, [$($o)*], { let v = $crate::verif_isa::ToU64::to_u64($e); m.mov_to_dr(7, v, o); }) };
    ("mov dr6, {}", in(reg) $e:expr, options($($o:tt)*) $(,)?) => { $crate::verif_isa::__blk!(m, o, [$($o)*], { let v = $crate::verif_isa::ToU64::to_u64($e); m.mov_to_dr(6, v, o); }) };
    // ------------------------------------------------ MSRs and XCR0
    ("rdmsr", in("ecx") $c:expr, out("eax") $lo:ident, out("edx") $hi:ident, options($($o:tt)*) $(,)?) => { $crate::verif_isa::__blk!(m, o, [$($o)*], { let c = $crate::verif_isa::ToU64::to_u64($c) as u32; let (a, d) = m.rdmsr(c, o); $lo = $crate::verif_isa::FromU64::from_u64(a as u64); $hi = $crate::verif_isa::FromU64::from_u64(d as u64); }) };
    ("rdmsr", in("ecx") $c:expr, out("edx") $hi:ident, out("eax") $lo:ident, options($($o:tt)*) $(,)?) => { $crate::verif_isa::__blk!(m, o, [$($o)*], { let c = $crate::verif_isa::ToU64::to_u64($c) as u32; let (a, d) = m.rdmsr(c, o); $lo = $crate::verif_isa::FromU64::from_u64(a as u64); $hi = $crate::verif_isa::FromU64::from_u64(d as u64); }) };
    ("wrmsr", in("ecx") $c:expr, in("eax") $lo:expr, in("edx") $hi:expr, options($($o:tt)*) $(,)?) => { $crate::verif_isa::__blk!(m, o, [$($o)*], { let c = $crate::verif_isa::ToU64::to_u64($c) as u32; let a = $crate::verif_isa::ToU64::to_u64($lo) as u32; let d = $crate::verif_isa::ToU64::to_u64($hi) as u32; m.wrmsr(c, a, d, o); }) };
    ("wrmsr", in("ecx") $c:expr, in("edx") $hi:expr, in("eax") $lo:expr, options($($o:tt)*) $(,)?) => { $crate::verif_isa::__blk!(m, o, [$($o)*], { let c = $crate::verif_isa::ToU64::to_u64($c) as u32; let a = $crate::verif_isa::ToU64::to_u64($lo) as u32; let d = $crate::verif_isa::ToU64::to_u64($hi) as u32; m.wrmsr(c, a, d, o); }) };
    ("xgetbv", in("ecx") $c:expr, out("rax") $lo:ident, out("rdx") $hi:ident, options($($o:tt)*) $(,)?) => { $crate::verif_isa::__blk!(m, o, [$($o)*], { let c = $crate::verif_isa::ToU64::to_u64($c) as u32; let (a, d) = m.xgetbv(c, o); $lo = $crate::verif_isa::FromU64::from_u64(a); $hi = $crate::verif_isa::FromU64::from_u64(d); }) };
    ("xsetbv", in("ecx") $c:expr, in("rax") $lo:expr, in("rdx") $hi:expr, options($($o:tt)*) $(,)?) => { $crate::verif_isa::__blk!(m, o, [$($o)*], { let c = $crate::verif_isa::ToU64::to_u64($c) as u32; let a = $crate::verif_isa::ToU64::to_u64($lo); let d = $crate::verif_isa::ToU64::to_u64($hi); m.xsetbv(c, a, d, o); }) };
    // ------------------------------------------------ segment registers
    (concat!("mov {0:x}, ", $n:tt), out(reg) $v:ident, options($($o:tt)*) $(,)?) => { $crate::verif_isa::__blk!(m, o, [$($o)*], { $v = $crate::verif_isa::FromU64::from_u64(m.mov_from_sreg($crate::verif_isa::__sreg!($n), o) as u64); }) };
    (concat!("mov ", $n:tt, ", {0:x}"), in(reg) $e:expr, options($($o:tt)*) $(,)?) => { $crate::verif_isa::__blk!(m, o, [$($o)*], { let v = $crate::verif_isa::ToU64::to_u64($e) as u16; m.mov_to_sreg($crate::verif_isa::__sreg!($n), v, o); }) };
    (concat!("rd", $n:tt, "base {}"), out(reg) $v:ident, options($($o:tt)*) $(,)?) => { $crate::verif_isa::__blk!(m, o, [$($o)*], { $v = $crate::verif_isa::FromU64::from_u64(m.rdbase($crate::verif_isa::__sreg!($n), o)); }) };
    (concat!("wr", $n:tt, "base {}"), in(reg) $e:expr, options($($o:tt)*) $(,)?) => { $crate::verif_isa::__blk!(m, o, [$($o)*], { let v = $crate::verif_isa::ToU64::to_u64($e); m.wrbase($crate::verif_isa::__sreg!($n), v, o); }) };
    ("push {sel}", "lea {tmp}, [55f + rip]", "push {tmp}", "retfq", "55:", sel = in(reg) $e:expr, tmp = lateout(reg) _, options($($o:tt)*) $(,)?) => { $crate::verif_isa::__blk!(m, o, [$($o)*], { let v = $crate::verif_isa::ToU64::to_u64($e); m.far_return_sequence(v, o); }) };
    ("swapgs", options($($o:tt)*) $(,)?) => { $crate::verif_isa::__blk!(m, o, [$($o)*], { m.swapgs(o); }) };
    // ------------------------------------------------ descriptor tables
    ("lgdt [{}]", in(reg) $e:expr, options($($o:tt)*) $(,)?) => { $crate::verif_isa::__blk!(m, o, [$($o)*], { let a = $crate::verif_isa::ToU64::to_u64($e); m.lgdt(a, o); }) };
    ("lidt [{}]", in(reg) $e:expr, options($($o:tt)*) $(,)?) => { $crate::verif_isa::__blk!(m, o, [$($o)*], { let a = $crate::verif_isa::ToU64::to_u64($e); m.lidt(a, o); }) };
    ("sgdt [{}]", in(reg) $e:expr, options($($o:tt)*) $(,)?) => { $crate::verif_isa::__blk!(m, o, [$($o)*], { let a = $crate::verif_isa::ToU64::to_u64($e); m.sgdt(a, o); }) };
    ("sidt [{}]", in(reg) $e:expr, options($($o:tt)*) $(,)?) => { $crate::verif_isa::__blk!(m, o, [$($o)*], { let a = $crate::verif_isa::ToU64::to_u64($e); m.sidt(a, o); }) };
    ("ltr {0:x}", in(reg) $e:expr, options($($o:tt)*) $(,)?) => { $crate::verif_isa::__blk!(m, o, [$($o)*], { let v = $crate::verif_isa::ToU64::to_u64($e) as u16; m.ltr(v, o); }) };
    // ------------------------------------------------ TLB
    ("invlpg [{}]", in(reg) $e:expr, options($($o:tt)*) $(,)?) => { $crate::verif_isa::__blk!(m, o, [$($o)*], { let a = $crate::verif_isa::ToU64::to_u64($e); m.invlpg(a, o); }) };
    ("invpcid {0}, [{1}]", in(reg) $k:expr, in(reg) $d:expr, options($($o:tt)*) $(,)?) => { $crate::verif_isa::__blk!(m, o, [$($o)*], { let k = $crate::verif_isa::ToU64::to_u64($k); let d = $crate::verif_isa::ToU64::to_u64($d); m.invpcid(k, d, o); }) };
    ("invlpgb", in("rax") $a:expr, in("ecx") $c:expr, in("edx") $d:expr, options($($o:tt)*) $(,)?) => { $crate::verif_isa::__blk!(m, o, [$($o)*], { let a = $crate::verif_isa::ToU64::to_u64($a); let c = $crate::verif_isa::ToU64::to_u64($c) as u32; let d = $crate::verif_isa::ToU64::to_u64($d) as u32; m.invlpgb(a, c, d, o); }) };
    ("tlbsync", options($($o:tt)*) $(,)?) => { $crate::verif_isa::__blk!(m, o, [$($o)*], { m.tlbsync(o); }) };
    // ------------------------------------------------ ports
    ("in al, dx", out("al") $v:ident, in("dx") $p:expr, options($($o:tt)*) $(,)?) => { $crate::verif_isa::__blk!(m, o, [$($o)*], { let p = $crate::verif_isa::ToU64::to_u64($p) as u16; $v = $crate::verif_isa::FromU64::from_u64(m.port_in(8, p, o) as u64); }) };
    ("in ax, dx", out("ax") $v:ident, in("dx") $p:expr, options($($o:tt)*) $(,)?) => { $crate::verif_isa::__blk!(m, o, [$($o)*], { let p = $crate::verif_isa::ToU64::to_u64($p) as u16; $v = $crate::verif_isa::FromU64::from_u64(m.port_in(16, p, o) as u64); }) };
    ("in eax, dx", out("eax") $v:ident, in("dx") $p:expr, options($($o:tt)*) $(,)?) => { $crate::verif_isa::__blk!(m, o, [$($o)*], { let p = $crate::verif_isa::ToU64::to_u64($p) as u16; $v = $crate::verif_isa::FromU64::from_u64(m.port_in(32, p, o) as u64); }) };
    ("out dx, al", in("dx") $p:expr, in("al") $v:expr, options($($o:tt)*) $(,)?) => { $crate::verif_isa::__blk!(m, o, [$($o)*], { let p = $crate::verif_isa::ToU64::to_u64($p) as u16; let v = $crate::verif_isa::ToU64::to_u64($v) as u32 & 0xff; m.port_out(8, p, v, o); }) };
    ("out dx, ax", in("dx") $p:expr, in("ax") $v:expr, options($($o:tt)*) $(,)?) => { $crate::verif_isa::__blk!(m, o, [$($o)*], { let p = $crate::verif_isa::ToU64::to_u64($p) as u16; let v = $crate::verif_isa::ToU64::to_u64($v) as u32 & 0xffff; m.port_out(16, p, v, o); }) };
    ("out dx, eax", in("dx") $p:expr, in("eax") $v:expr, options($($o:tt)*) $(,)?) => { $crate::verif_isa::__blk!(m, o, [$($o)*], { let p = $crate::verif_isa::ToU64::to_u64($p) as u16; let v = $crate::verif_isa::ToU64::to_u64($v) as u32; m.port_out(32, p, v, o); }) };
    // ------------------------------------------------ interrupts / misc
    ("sti", options($($o:tt)*) $(,)?) => { $crate::verif_isa::__blk!(m, o, [$($o)*], { m.sti(o); }) };
    ("cli", options($($o:tt)*) $(,)?) => { $crate::verif_isa::__blk!(m, o, [$($o)*], { m.cli(o); }) };
    ("sti; hlt", options($($o:tt)*) $(,)?) => { $crate::verif_isa::__blk!(m, o, [$($o)*], { m.sti(o); m.hlt(o); }) };
    ("hlt", options($($o:tt)*) $(,)?) => { $crate::verif_isa::__blk!(m, o, [$($o)*], { m.hlt(o); }) };
    ("nop", options($($o:tt)*) $(,)?) => { $crate::verif_isa::__blk!(m, o, [$($o)*], { m.nop(o); }) };
    ("xchg bx, bx", options($($o:tt)*) $(,)?) => { $crate::verif_isa::__blk!(m, o, [$($o)*], { m.xchg_bx_bx(o); }) };
    ("int3", options($($o:tt)*) $(,)?) => { $crate::verif_isa::__blk!(m, o, [$($o)*], { m.int3(o); }) };
    ("int {num}", num = const $n:expr, options($($o:tt)*) $(,)?) => { $crate::verif_isa::__blk!(m, o, [$($o)*], { m.int_n($n as u64, o); }) };
    ("lea {}, [rip]", out(reg) $v:ident, options($($o:tt)*) $(,)?) => { $crate::verif_isa::__blk!(m, o, [$($o)*], { $v = $crate::verif_isa::FromU64::from_u64(m.lea_rip(o)); }) };
    ("pushfq; pop {}", out(reg) $v:ident, options($($o:tt)*) $(,)?) => { $crate::verif_isa::__blk!(m, o, [$($o)*], { $v = $crate::verif_isa::FromU64::from_u64(m.pushfq_pop(o)); }) };
    ("push {}; popfq", in(reg) $e:expr, options($($o:tt)*) $(,)?) => { $crate::verif_isa::__blk!(m, o, [$($o)*], { let v = $crate::verif_isa::ToU64::to_u64($e); m.push_popfq(v, o); }) };
    ("stmxcsr [{}]", in(reg) $e:expr, options($($o:tt)*) $(,)?) => { $crate::verif_isa::__blk!(m, o, [$($o)*], { let a = $crate::verif_isa::ToU64::to_u64($e); m.stmxcsr(a, o); }) };
    ("ldmxcsr [{}]", in(reg) $e:expr, options($($o:tt)*) $(,)?) => { $crate::verif_isa::__blk!(m, o, [$($o)*], { let a = $crate::verif_isa::ToU64::to_u64($e); m.ldmxcsr(a, o); }) };
    ("push {stack_segment:r}", "push {new_stack_pointer}", "push {rflags}", "push {code_segment:r}", "push {new_instruction_pointer}", "iretq",
     rflags = in(reg) $rf:expr, new_instruction_pointer = in(reg) $ip:expr, new_stack_pointer = in(reg) $sp:expr,
     code_segment = in(reg) $cs:expr, stack_segment = in(reg) $ss:expr, options($($o:tt)*) $(,)?) => {{
        $crate::verif_isa::__blk!(m, o, [$($o)*], {
            let (ss, sp, rf, cs, ip) = ($crate::verif_isa::ToU64::to_u64($ss), $crate::verif_isa::ToU64::to_u64($sp), $crate::verif_isa::ToU64::to_u64($rf), $crate::verif_isa::ToU64::to_u64($cs), $crate::verif_isa::ToU64::to_u64($ip));
            m.push5_iretq(ss, sp, rf, cs, ip, o);
        });
        $crate::verif_isa::diverge()
    }};
    // ------------------------------------------------ generic fallback: any other block is parsed and interpreted
    ($($all:tt)*) => { $crate::verif_isa::__asm_generic!(@tpl [] $($all)* ,) };
}
pub(crate) use asm;

/// Arbitrary machine state (all architectural registers symbolic); returns a copy of it.
#[cfg(kani)]
pub fn havoc() -> Machine {
    let mm = m();
    *mm = RESET;
    mm.cr = kani::any();
    mm.dr = kani::any();
    mm.xcr0 = kani::any();
    mm.msr_val = kani::any();
    mm.seg = kani::any();
    mm.fs_base = kani::any();
    mm.gs_base = kani::any();
    mm.kernel_gs_base = kani::any();
    mm.tr = kani::any();
    mm.gdtr_base = kani::any();
    mm.gdtr_limit = kani::any();
    mm.idtr_base = kani::any();
    mm.idtr_limit = kani::any();
    mm.rflags = kani::any();
    mm.mxcsr = kani::any();
    mm.rip_opaque = kani::any();
    mm.port_in = kani::any();
    *mm
}
/// Declare the one MSR a wrapper is entitled to touch (index from the *oracle* table, not from the crate).
#[cfg(kani)]
pub fn declare_msr(slot: usize, index: u32) {
    let mm = m();
    mm.msr_idx[slot] = index;
}

// ======================================================================================================
// Generic fallback lifter: a block that no arm of `asm!` matches textually (named or explicitly numbered
// operands, a template split into several strings, operands in a different order, a template passed through a
// `$t:literal` macro fragment, a changed instruction ...) is parsed by a `const fn` at compile time and
// interpreted instruction by instruction on a small register file (rax/rcx/rdx + the block's operands) and the
// machine's stack.  Supported mnemonics: everything the table above knows.  Anything else is a compile error of
// the overlay (= inconclusive, never a verdict).
// ======================================================================================================
#[derive(Clone, Copy, PartialEq, Eq)]
pub enum GOp {
    None, In, Out, Mov, Rdmsr, Wrmsr, Xgetbv, Xsetbv, RdBase, WrBase, Swapgs, Lgdt, Lidt, Sgdt, Sidt, Ltr, Invlpg, Invpcid,
    Invlpgb, Tlbsync, Cli, Sti, Hlt, Nop, XchgBx, Int3, Int, LeaRip, LeaLabel, Label, Pushfq, Popfq, Push, Pop, Retfq, Iretq,
    Stmxcsr, Ldmxcsr,
}
/// operand of a generic instruction
#[derive(Clone, Copy, PartialEq, Eq)]
pub enum GArg {
    None,
    /// asm operand number N (register class `reg`), optionally dereferenced `[ {N} ]`
    Pos(u8, bool),
    /// architectural register: (family, number, width in bits); family 0 = GPR a/c/d (number 0/1/2),
    /// 1 = control, 2 = debug, 3 = segment
    Reg(u8, u8, u8),
}
#[derive(Clone, Copy)]
pub struct GInsn { pub op: GOp, pub a: GArg, pub b: GArg }
pub const G_MAX_INSN: usize = 8;
pub const G_MAX_POS: usize = 6;
#[derive(Clone, Copy)]
pub struct GProg { pub n: usize, pub insn: [GInsn; G_MAX_INSN] }

const fn is_ws(c: u8) -> bool { c == b' ' || c == b'\t' }
const fn eq(t: &[u8], lo: usize, hi: usize, w: &[u8]) -> bool {
    if hi - lo != w.len() { return false; }
    let mut i = 0;
    while i < w.len() { if t[lo + i] != w[i] { return false; } i += 1; }
    true
}
const fn parse_reg(t: &[u8], lo: usize, hi: usize) -> GArg {
    if eq(t, lo, hi, b"al") { return GArg::Reg(0, 0, 8); }
    if eq(t, lo, hi, b"ax") { return GArg::Reg(0, 0, 16); }
    if eq(t, lo, hi, b"eax") { return GArg::Reg(0, 0, 32); }
    if eq(t, lo, hi, b"rax") { return GArg::Reg(0, 0, 64); }
    if eq(t, lo, hi, b"cl") { return GArg::Reg(0, 1, 8); }
    if eq(t, lo, hi, b"cx") { return GArg::Reg(0, 1, 16); }
    if eq(t, lo, hi, b"ecx") { return GArg::Reg(0, 1, 32); }
    if eq(t, lo, hi, b"rcx") { return GArg::Reg(0, 1, 64); }
    if eq(t, lo, hi, b"dl") { return GArg::Reg(0, 2, 8); }
    if eq(t, lo, hi, b"dx") { return GArg::Reg(0, 2, 16); }
    if eq(t, lo, hi, b"edx") { return GArg::Reg(0, 2, 32); }
    if eq(t, lo, hi, b"rdx") { return GArg::Reg(0, 2, 64); }
    if hi - lo == 3 && t[lo] == b'c' && t[lo + 1] == b'r' && t[lo + 2] >= b'0' && t[lo + 2] <= b'4' && t[lo + 2] != b'1' { return GArg::Reg(1, t[lo + 2] - b'0', 64); }
    if hi - lo == 3 && t[lo] == b'd' && t[lo + 1] == b'r' && t[lo + 2] >= b'0' && t[lo + 2] <= b'7' { return GArg::Reg(2, t[lo + 2] - b'0', 64); }
    if hi - lo == 2 && t[lo + 1] == b's' {
        let n = match t[lo] { b'e' => 0, b'c' => 1, b's' => 2, b'd' => 3, b'f' => 4, b'g' => 5, _ => 9 };
        if n != 9 { return GArg::Reg(3, n, 16); }
    }
    panic!("verif_isa: generic lifter: unknown register")
}
/// one operand token t[lo..hi] (already trimmed); `next_pos` numbers the `{}` placeholders, `names` are the
/// operand names in declaration order ("" for unnamed operands)
const fn parse_arg(t: &[u8], lo: usize, hi: usize, names: &[&str], next_pos: &mut u8) -> GArg {
    let (mut lo, mut hi, mut mem) = (lo, hi, false);
    if t[lo] == b'[' && t[hi - 1] == b']' {
        mem = true;
        lo += 1;
        hi -= 1;
        while lo < hi && is_ws(t[lo]) { lo += 1; }
        while hi > lo && is_ws(t[hi - 1]) { hi -= 1; }
    }
    if t[lo] == b'{' && t[hi - 1] == b'}' {
        // {} | {N} | {name} , each optionally with a `:modifier` (register width as printed; the operand's value
        // is the same)
        let s = lo + 1;
        let mut e = s;
        while e < hi - 1 && t[e] != b':' { e += 1; }
        if e == s {
            let p = *next_pos;
            *next_pos += 1;
            return GArg::Pos(p, mem);
        }
        if t[s] >= b'0' && t[s] <= b'9' {
            if e - s != 1 { panic!("verif_isa: generic lifter: operand number too large") }
            return GArg::Pos(t[s] - b'0', mem);
        }
        let mut k = 0;
        while k < names.len() {
            if eq(t, s, e, names[k].as_bytes()) { return GArg::Pos(k as u8, mem); }
            k += 1;
        }
        panic!("verif_isa: generic lifter: unknown operand name in template")
    }
    if mem { panic!("verif_isa: generic lifter: memory operand must be a placeholder") }
    parse_reg(t, lo, hi)
}
pub const fn parse_template(tpl: &str, names: &[&str]) -> GProg {
    let t = tpl.as_bytes();
    let none = GInsn { op: GOp::None, a: GArg::None, b: GArg::None };
    let mut p = GProg { n: 0, insn: [none; G_MAX_INSN] };
    let mut next_pos: u8 = 0;
    let mut i = 0;
    while i < t.len() {
        // one instruction up to ';' or '\n'
        let mut end = i;
        while end < t.len() && t[end] != b';' && t[end] != b'\n' { end += 1; }
        let (mut lo, mut hi) = (i, end);
        while lo < hi && is_ws(t[lo]) { lo += 1; }
        while hi > lo && is_ws(t[hi - 1]) { hi -= 1; }
        if lo < hi {
            let mut me = lo;
            while me < hi && !is_ws(t[me]) { me += 1; }
            // operand text
            let mut s = me;
            while s < hi && is_ws(t[s]) { s += 1; }
            let (mut a, mut b) = (GArg::None, GArg::None);
            let mut parse_ops = true;
            let op = if t[hi - 1] == b':' && me == hi { parse_ops = false; GOp::Label }
                else if eq(t, lo, me, b"in") { GOp::In } else if eq(t, lo, me, b"out") { GOp::Out } else if eq(t, lo, me, b"mov") { GOp::Mov }
                else if eq(t, lo, me, b"rdmsr") { GOp::Rdmsr } else if eq(t, lo, me, b"wrmsr") { GOp::Wrmsr }
                else if eq(t, lo, me, b"xgetbv") { GOp::Xgetbv } else if eq(t, lo, me, b"xsetbv") { GOp::Xsetbv }
                else if eq(t, lo, me, b"rdfsbase") { b = GArg::Reg(3, 4, 16); GOp::RdBase } else if eq(t, lo, me, b"rdgsbase") { b = GArg::Reg(3, 5, 16); GOp::RdBase }
                else if eq(t, lo, me, b"wrfsbase") { b = GArg::Reg(3, 4, 16); GOp::WrBase } else if eq(t, lo, me, b"wrgsbase") { b = GArg::Reg(3, 5, 16); GOp::WrBase }
                else if eq(t, lo, me, b"swapgs") { GOp::Swapgs }
                else if eq(t, lo, me, b"lgdt") { GOp::Lgdt } else if eq(t, lo, me, b"lidt") { GOp::Lidt }
                else if eq(t, lo, me, b"sgdt") { GOp::Sgdt } else if eq(t, lo, me, b"sidt") { GOp::Sidt } else if eq(t, lo, me, b"ltr") { GOp::Ltr }
                else if eq(t, lo, me, b"invlpg") { GOp::Invlpg } else if eq(t, lo, me, b"invpcid") { GOp::Invpcid }
                else if eq(t, lo, me, b"invlpgb") { GOp::Invlpgb } else if eq(t, lo, me, b"tlbsync") { GOp::Tlbsync }
                else if eq(t, lo, me, b"cli") { GOp::Cli } else if eq(t, lo, me, b"sti") { GOp::Sti } else if eq(t, lo, me, b"hlt") { GOp::Hlt }
                else if eq(t, lo, me, b"nop") { GOp::Nop } else if eq(t, lo, me, b"int3") { GOp::Int3 } else if eq(t, lo, me, b"int") { GOp::Int }
                else if eq(t, lo, me, b"pushfq") { GOp::Pushfq } else if eq(t, lo, me, b"popfq") { GOp::Popfq }
                else if eq(t, lo, me, b"push") { GOp::Push } else if eq(t, lo, me, b"pop") { GOp::Pop }
                else if eq(t, lo, me, b"retfq") { GOp::Retfq } else if eq(t, lo, me, b"iretq") { GOp::Iretq }
                else if eq(t, lo, me, b"stmxcsr") { GOp::Stmxcsr } else if eq(t, lo, me, b"ldmxcsr") { GOp::Ldmxcsr }
                else if eq(t, lo, me, b"xchg") {
                    if !eq(t, s, hi, b"bx, bx") { panic!("verif_isa: generic lifter: only `xchg bx, bx` is supported") }
                    parse_ops = false;
                    GOp::XchgBx
                } else if eq(t, lo, me, b"lea") {
                    // lea X, [rip]  |  lea X, [<digits>f + rip]
                    let mut c = s;
                    while c < hi && t[c] != b',' { c += 1; }
                    if c >= hi { panic!("verif_isa: generic lifter: lea needs two operands") }
                    let mut ahi = c;
                    while ahi > s && is_ws(t[ahi - 1]) { ahi -= 1; }
                    a = parse_arg(t, s, ahi, names, &mut next_pos);
                    let mut blo = c + 1;
                    while blo < hi && is_ws(t[blo]) { blo += 1; }
                    parse_ops = false;
                    if eq(t, blo, hi, b"[rip]") { GOp::LeaRip }
                    else if hi - blo >= 9 && t[blo] == b'[' && t[blo + 1] >= b'0' && t[blo + 1] <= b'9' && eq(t, hi - 7, hi, b" + rip]") && (t[hi - 8] == b'f') { GOp::LeaLabel }
                    else { panic!("verif_isa: generic lifter: unsupported lea source") }
                }
                else { panic!("verif_isa: generic lifter: unsupported mnemonic") };
            if parse_ops && s < hi {
                // split at the top-level comma
                let mut c = s;
                let mut depth = 0;
                while c < hi && !(t[c] == b',' && depth == 0) {
                    if t[c] == b'{' || t[c] == b'[' { depth += 1; }
                    if t[c] == b'}' || t[c] == b']' { depth -= 1; }
                    c += 1;
                }
                let mut ahi = c;
                while ahi > s && is_ws(t[ahi - 1]) { ahi -= 1; }
                a = parse_arg(t, s, ahi, names, &mut next_pos);
                if c < hi {
                    let mut blo = c + 1;
                    while blo < hi && is_ws(t[blo]) { blo += 1; }
                    b = parse_arg(t, blo, hi, names, &mut next_pos);
                }
            }
            if p.n >= G_MAX_INSN { panic!("verif_isa: generic lifter: block too long") }
            p.insn[p.n] = GInsn { op, a, b };
            p.n += 1;
        }
        i = end + 1;
    }
    if p.n == 0 { panic!("verif_isa: generic lifter: empty template") }
    p
}
/// register class written in the operand: `reg` (and its sub-classes) or `"eax"`-style explicit register (with the quotes)
pub const fn class_reg(cls: &str) -> GArg {
    let t = cls.as_bytes();
    if eq(t, 0, t.len(), b"reg") || eq(t, 0, t.len(), b"reg_abcd") || eq(t, 0, t.len(), b"reg_byte") { return GArg::Pos(0xff, false); }
    if t.len() >= 2 && t[0] == b'"' { return parse_reg(t, 1, t.len() - 1); }
    panic!("verif_isa: generic lifter: unsupported register class")
}

/// register file of one generic block
pub struct GRegs { pub gpr: [u64; 3], pub pos: [u64; G_MAX_POS], pub npos: usize }
impl GRegs {
    pub fn new() -> Self { GRegs { gpr: [0; 3], pos: [0; G_MAX_POS], npos: 0 } }
    /// bind an input operand (operands are numbered in declaration order; explicit registers come last and are
    /// never referenced by number)
    pub fn bind_in(&mut self, cls: GArg, v: u64) {
        match cls {
            GArg::Pos(_, _) => { self.pos[self.npos] = v; self.npos += 1; }
            GArg::Reg(0, n, w) => { self.gpr[n as usize] = mask(v, w); }
            _ => {}
        }
    }
    /// reserve the slot of an output operand; returns where to read it from afterwards
    pub fn bind_out(&mut self, cls: GArg) -> GArg {
        match cls {
            GArg::Pos(_, _) => { self.npos += 1; GArg::Pos((self.npos - 1) as u8, false) }
            other => other,
        }
    }
    pub fn read(&self, a: GArg) -> u64 {
        match a {
            GArg::Pos(n, _) => self.pos[n as usize],
            GArg::Reg(0, n, w) => mask(self.gpr[n as usize], w),
            _ => 0,
        }
    }
    fn write(&mut self, a: GArg, v: u64) {
        match a {
            GArg::Pos(n, _) => self.pos[n as usize] = v,
            // x86-64: a 32-bit write zero-extends, 8/16-bit writes leave the upper bits
            GArg::Reg(0, n, 64) => self.gpr[n as usize] = v,
            GArg::Reg(0, n, 32) => self.gpr[n as usize] = v & 0xffff_ffff,
            GArg::Reg(0, n, w) => { let m = (1u64 << w) - 1; self.gpr[n as usize] = (self.gpr[n as usize] & !m) | (v & m); }
            _ => {}
        }
    }
}
fn mask(v: u64, w: u8) -> u64 { if w >= 64 { v } else { v & ((1u64 << w) - 1) } }

pub fn exec_generic(p: &GProg, r: &mut GRegs, o: u8) {
    let mm = m();
    let sp0 = mm.sp;
    let mut i = 0;
    while i < p.n {
        let GInsn { op, a, b } = p.insn[i];
        match op {
            GOp::In => {
                // in al|ax|eax, dx
                let w = match a { GArg::Reg(0, 0, w) => w, _ => 0 };
                let port = r.read(b) as u16;
                let v = mm.port_in(w as u32, port, o);
                r.write(a, v as u64);
            }
            GOp::Out => {
                let w = match b { GArg::Reg(0, 0, w) => w, _ => 0 };
                let port = r.read(a) as u16;
                mm.port_out(w as u32, port, r.read(b) as u32, o);
            }
            GOp::Mov => match (a, b) {
                (dst, GArg::Reg(1, n, _)) => { let v = mm.mov_from_cr(n as usize, o); r.write(dst, v); }
                (GArg::Reg(1, n, _), src) => { let v = r.read(src); mm.mov_to_cr(n as usize, v, o); }
                (dst, GArg::Reg(2, n, _)) => { let v = mm.mov_from_dr(n as usize, o); r.write(dst, v); }
                (GArg::Reg(2, n, _), src) => { let v = r.read(src); mm.mov_to_dr(n as usize, v, o); }
                (dst, GArg::Reg(3, n, _)) => { let v = mm.mov_from_sreg(n as usize, o); r.write(dst, v as u64); }
                (GArg::Reg(3, n, _), src) => { let v = r.read(src) as u16; mm.mov_to_sreg(n as usize, v, o); }
                (dst, src) => { let v = r.read(src); r.write(dst, v); }
            },
            GOp::Rdmsr => {
                let (lo, hi) = mm.rdmsr(r.gpr[1] as u32, o);
                r.gpr[0] = lo as u64;
                r.gpr[2] = hi as u64;
            }
            GOp::Wrmsr => mm.wrmsr(r.gpr[1] as u32, r.gpr[0] as u32, r.gpr[2] as u32, o),
            GOp::Xgetbv => {
                let (lo, hi) = mm.xgetbv(r.gpr[1] as u32, o);
                r.gpr[0] = lo;
                r.gpr[2] = hi;
            }
            GOp::Xsetbv => mm.xsetbv(r.gpr[1] as u32, r.gpr[0], r.gpr[2], o),
            GOp::RdBase => { let s = match b { GArg::Reg(3, n, _) => n as usize, _ => FS }; let v = mm.rdbase(s, o); r.write(a, v); }
            GOp::WrBase => { let s = match b { GArg::Reg(3, n, _) => n as usize, _ => FS }; mm.wrbase(s, r.read(a), o); }
            GOp::Swapgs => mm.swapgs(o),
            GOp::Lgdt => mm.lgdt(r.read(a), o),
            GOp::Lidt => mm.lidt(r.read(a), o),
            GOp::Sgdt => mm.sgdt(r.read(a), o),
            GOp::Sidt => mm.sidt(r.read(a), o),
            GOp::Ltr => mm.ltr(r.read(a) as u16, o),
            GOp::Invlpg => mm.invlpg(r.read(a), o),
            GOp::Invpcid => mm.invpcid(r.read(a), r.read(b), o),
            GOp::Invlpgb => mm.invlpgb(r.gpr[0], r.gpr[1] as u32, r.gpr[2] as u32, o),
            GOp::Tlbsync => mm.tlbsync(o),
            GOp::Cli => mm.cli(o),
            GOp::Sti => mm.sti(o),
            GOp::Hlt => mm.hlt(o),
            GOp::Nop => mm.nop(o),
            GOp::XchgBx => mm.xchg_bx_bx(o),
            GOp::Int3 => mm.int3(o),
            GOp::Int => mm.int_n(r.read(a), o),
            GOp::LeaRip => { let v = mm.lea_rip(o); r.write(a, v); }
            GOp::LeaLabel => r.write(a, LABEL_55),
            GOp::Label => {}
            GOp::Pushfq => mm.op_pushfq(o),
            GOp::Popfq => mm.op_popfq(o),
            GOp::Push => mm.op_push(r.read(a), o),
            GOp::Pop => { let v = mm.op_pop(o); r.write(a, v); }
            GOp::Retfq => { let lands = i + 1 < p.n && matches!(p.insn[i + 1].op, GOp::Label); mm.op_retfq(lands, o); }
            GOp::Iretq => mm.op_iretq(o),
            GOp::Stmxcsr => mm.stmxcsr(r.read(a), o),
            GOp::Ldmxcsr => mm.ldmxcsr(r.read(a), o),
            GOp::None => {}
        }
        i += 1;
    }
    if o & OPT_NORETURN == 0 && mm.sp != sp0 {
        mm.stack_fault = true; // the block returns with a different stack pointer
    }
}

/// `noreturn` blocks have type `!`
macro_rules! __maybe_diverge {
    () => { () };
    (noreturn $($r:tt)*) => { $crate::verif_isa::diverge() };
    ($x:tt $($r:tt)*) => { $crate::verif_isa::__maybe_diverge!($($r)*) };
}
pub(crate) use __maybe_diverge;

/// The fallback: @tpl collects the template strings, @names the operand names (for `{name}` placeholders), @ops
/// binds inputs, runs the program and reads the outputs back.
macro_rules! __asm_generic {
    // ---- template strings (joined by newlines, as the assembler sees them)
    (@tpl [$($t:tt)*] $l:literal, $($rest:tt)*) => { $crate::verif_isa::__asm_generic!(@tpl [$($t)* $l, "\n",] $($rest)*) };
    (@tpl [$($t:tt)*] concat!($($c:tt)*), $($rest:tt)*) => { $crate::verif_isa::__asm_generic!(@tpl [$($t)* concat!($($c)*), "\n",] $($rest)*) };
    (@tpl [$($t:tt)+] $($ops:tt)*) => { $crate::verif_isa::__asm_generic!(@names [$($t)+] [] [$($ops)*] $($ops)*) };
    // ---- operand names in declaration order
    (@names $t:tt [$($n:tt)*] $all:tt $name:ident = const $e:expr, $($rest:tt)*) => { $crate::verif_isa::__asm_generic!(@names $t [$($n)* stringify!($name),] $all $($rest)*) };
    (@names $t:tt [$($n:tt)*] $all:tt $name:ident = $k:ident($c:tt) _, $($rest:tt)*) => { $crate::verif_isa::__asm_generic!(@names $t [$($n)* stringify!($name),] $all $($rest)*) };
    (@names $t:tt [$($n:tt)*] $all:tt $name:ident = $k:ident($c:tt) $e:expr, $($rest:tt)*) => { $crate::verif_isa::__asm_generic!(@names $t [$($n)* stringify!($name),] $all $($rest)*) };
    (@names $t:tt [$($n:tt)*] $all:tt const $e:expr, $($rest:tt)*) => { $crate::verif_isa::__asm_generic!(@names $t [$($n)* "",] $all $($rest)*) };
    (@names $t:tt [$($n:tt)*] $all:tt options($($o:tt)*) $(,)*) => { $crate::verif_isa::__asm_generic!(@go $t [$($n)*] $all) };
    (@names $t:tt [$($n:tt)*] $all:tt $k:ident($c:tt) _, $($rest:tt)*) => { $crate::verif_isa::__asm_generic!(@names $t [$($n)* "",] $all $($rest)*) };
    (@names $t:tt [$($n:tt)*] $all:tt $k:ident($c:tt) $e:expr, $($rest:tt)*) => { $crate::verif_isa::__asm_generic!(@names $t [$($n)* "",] $all $($rest)*) };
    (@names $t:tt [$($n:tt)*] $all:tt $(,)*) => { $crate::verif_isa::__asm_generic!(@go $t [$($n)*] $all) };
    (@go [$($t:tt)+] [$($n:tt)*] [$($ops:tt)*]) => {{
        const __T: &str = concat!($($t)+);
        const __N: &[&str] = &[$($n)*];
        const __P: $crate::verif_isa::GProg = $crate::verif_isa::parse_template(__T, __N);
        let __m = $crate::verif_isa::m();
        __m.begin_block();
        let mut __r = $crate::verif_isa::GRegs::new();
        #[allow(unused_assignments, unused_mut)]
        let mut __o: u8 = 0;
        $crate::verif_isa::__asm_generic!(@ops __P __r __o [] $($ops)*)
    }};
    // ---- run + outputs
    (@run $p:ident $r:ident $o:ident [$($outs:tt)*]) => {{
        $crate::verif_isa::exec_generic(&$p, &mut $r, $o);
        $crate::verif_isa::__asm_generic!(@outs $r [$($outs)*]);
    }};
    (@outs $r:ident []) => {};
    (@outs $r:ident [($v:ident, $slot:ident) $($rest:tt)*]) => {
        $v = $crate::verif_isa::FromU64::from_u64($r.read($slot));
        $crate::verif_isa::__asm_generic!(@outs $r [$($rest)*]);
    };
    // ---- operands
    (@ops $p:ident $r:ident $o:ident [$($outs:tt)*] options($($opt:tt)*) $(,)*) => {{
        $o = $crate::verif_isa::__opts!($($opt)*);
        $crate::verif_isa::__asm_generic!(@run $p $r $o [$($outs)*]);
        $crate::verif_isa::__maybe_diverge!($($opt)*)
    }};
    (@ops $p:ident $r:ident $o:ident [$($outs:tt)*] $(,)*) => {
        $crate::verif_isa::__asm_generic!(@run $p $r $o [$($outs)*]);
    };
    (@ops $p:ident $r:ident $o:ident [$($outs:tt)*] $name:ident = $($rest:tt)*) => {
        $crate::verif_isa::__asm_generic!(@ops $p $r $o [$($outs)*] $($rest)*)
    };
    (@ops $p:ident $r:ident $o:ident [$($outs:tt)*] const $e:expr, $($rest:tt)*) => {{
        $r.bind_in($crate::verif_isa::GArg::Pos(0xff, false), ($e) as u64);
        $crate::verif_isa::__asm_generic!(@ops $p $r $o [$($outs)*] $($rest)*)
    }};
    (@ops $p:ident $r:ident $o:ident [$($outs:tt)*] in($c:tt) $e:expr, $($rest:tt)*) => {{
        const CLS: $crate::verif_isa::GArg = $crate::verif_isa::class_reg(stringify!($c));
        $r.bind_in(CLS, $crate::verif_isa::ToU64::to_u64($e));
        $crate::verif_isa::__asm_generic!(@ops $p $r $o [$($outs)*] $($rest)*)
    }};
    (@ops $p:ident $r:ident $o:ident [$($outs:tt)*] out($c:tt) _, $($rest:tt)*) => {{
        const CLS: $crate::verif_isa::GArg = $crate::verif_isa::class_reg(stringify!($c));
        let _ = $r.bind_out(CLS);
        $crate::verif_isa::__asm_generic!(@ops $p $r $o [$($outs)*] $($rest)*)
    }};
    (@ops $p:ident $r:ident $o:ident [$($outs:tt)*] out($c:tt) $v:ident, $($rest:tt)*) => {{
        const CLS: $crate::verif_isa::GArg = $crate::verif_isa::class_reg(stringify!($c));
        let slot = $r.bind_out(CLS);
        $crate::verif_isa::__asm_generic!(@ops $p $r $o [$($outs)* ($v, slot)] $($rest)*)
    }};
    (@ops $p:ident $r:ident $o:ident [$($outs:tt)*] lateout($c:tt) $($rest:tt)*) => {
        $crate::verif_isa::__asm_generic!(@ops $p $r $o [$($outs)*] out($c) $($rest)*)
    };
}
pub(crate) use __asm_generic;
