//! C19 -- small codecs (the constants themselves are checked by the harness generated from
//! oracle/constants.txt, see tools/gen_c19.py).
use crate::instructions::tlb::Pcid;
use crate::registers::debug::*;
use crate::registers::model_specific::{Pat, PatMemoryType};
use crate::registers::mxcsr::MxCsr;
use crate::structures::idt::{DescriptorTable, ExceptionVector, SelectorErrorCode};
use crate::verif_oracle::*;
use core::convert::TryFrom;

// SDM vol.3B 18.2.4: flags L0..G3 (0-7), LE 8, GE 9, RTM 11, GD 13; four 4-bit R/W+LEN fields in 16-31
const DR7_FLAGS: u64 = 0xff | (1 << 8) | (1 << 9) | (1 << 11) | (1 << 13);
const DR7_FIELDS: u64 = 0xffff_0000;

#[kani::proof]
fn c19_exception_vector_try_from() {
    let x: u8 = kani::any();
    let defined = matches!(x, 0..=8 | 10..=14 | 16..=21 | 28..=30);
    match ExceptionVector::try_from(x) {
        Ok(v) => {
            vp!(C19, defined, "ExceptionVector::try_from accepted an undefined vector number");
            vp!(C19, v as u8 == x, "ExceptionVector::try_from returned a different vector");
        }
        Err(_) => vp!(C19, !defined, "ExceptionVector::try_from rejected a defined vector number"),
    }
    kani::cover!(x == 30);
    kani::cover!(x == 9);
}

#[kani::proof]
fn c19_pat_memory_type_codec() {
    let b: u8 = kani::any();
    let defined = matches!(b, 0 | 1 | 4 | 5 | 6 | 7);
    match PatMemoryType::from_bits(b) {
        Some(t) => {
            vp!(C19, defined, "PatMemoryType::from_bits accepted a reserved encoding");
            vp!(C19, t.bits() == b, "PatMemoryType bits do not round-trip");
        }
        None => vp!(C19, !defined, "PatMemoryType::from_bits rejected a defined encoding"),
    }
    // power-on default of IA32_PAT: 0007040600070406H (SDM vol.3A 12.12.4)
    let want: [u8; 8] = [6, 4, 7, 0, 6, 4, 7, 0];
    let i: usize = kani::any();
    kani::assume(i < 8);
    vp!(C19, Pat::DEFAULT[i].bits() == want[i], "Pat::DEFAULT is not the architectural reset value");
    kani::cover!(b == 2);
}

#[kani::proof]
fn c19_breakpoint_codecs() {
    let s: usize = kani::any();
    match BreakpointSize::new(s) {
        Some(z) => vp!(C19, (s == 1 && z as u64 == 0) || (s == 2 && z as u64 == 1) || (s == 8 && z as u64 == 2) || (s == 4 && z as u64 == 3), "BreakpointSize::new maps a length to the wrong LEN encoding"),
        None => vp!(C19, s != 1 && s != 2 && s != 4 && s != 8, "BreakpointSize::new rejected a valid length"),
    }
    let b: u64 = kani::any();
    vp!(C19, BreakpointSize::from_bits(b).map(|z| z as u64) == if b < 4 { Some(b) } else { None }, "BreakpointSize::from_bits is not the 2-bit LEN codec");
    vp!(C19, BreakpointCondition::from_bits(b).map(|z| z as u64) == if b < 4 { Some(b) } else { None }, "BreakpointCondition::from_bits is not the 2-bit R/W codec");
    let n: u8 = kani::any();
    match DebugAddressRegisterNumber::new(n) {
        Some(r) => vp!(C19, n < 4 && r.get() == n, "DebugAddressRegisterNumber does not round-trip"),
        None => vp!(C19, n >= 4, "DebugAddressRegisterNumber::new rejected 0..=3"),
    }
    if n < 4 {
        let r = DebugAddressRegisterNumber::new(n).unwrap();
        vp!(C19, Dr6Flags::trap(r).bits() == 1 << n, "Dr6Flags::trap(n) is not B<n>");
        vp!(C19, Dr7Flags::local_breakpoint_enable(r).bits() == 1 << (2 * n), "Dr7Flags::local_breakpoint_enable(n) is not L<n>");
        vp!(C19, Dr7Flags::global_breakpoint_enable(r).bits() == 1 << (2 * n + 1), "Dr7Flags::global_breakpoint_enable(n) is not G<n>");
    }
    kani::cover!(n == 3);
    kani::cover!(s == 8);
}

#[kani::proof]
fn c19_dr7_value_fields_independent() {
    let bits: u64 = kani::any();
    match Dr7Value::from_bits(bits) {
        Some(v) => {
            vp!(C19, bits & !(DR7_FLAGS | DR7_FIELDS) == 0, "Dr7Value::from_bits accepted reserved bits");
            vp!(C19, v.bits() == bits, "Dr7Value::from_bits changed the value");
        }
        None => vp!(C19, bits & !(DR7_FLAGS | DR7_FIELDS) != 0, "Dr7Value::from_bits rejected a valid DR7 value"),
    }
    vp!(C19, Dr7Value::from_bits_truncate(bits).bits() == bits & (DR7_FLAGS | DR7_FIELDS), "Dr7Value::from_bits_truncate is not the valid-bit mask");
    let mut v = Dr7Value::from_bits_truncate(bits);
    let before = v.bits();
    let n = DebugAddressRegisterNumber::new(kani::any::<u8>() % 4).unwrap();
    let sh = 16 + 4 * n.get() as u64;
    vp!(C19, v.condition(n) as u64 == (before >> sh) & 3, "Dr7Value::condition(n) is not the R/W<n> field");
    vp!(C19, v.size(n) as u64 == (before >> (sh + 2)) & 3, "Dr7Value::size(n) is not the LEN<n> field");
    vp!(C19, v.flags().bits() == before & DR7_FLAGS, "Dr7Value::flags is not the flag bits");
    let c = BreakpointCondition::from_bits(kani::any::<u64>() % 4).unwrap();
    let z = BreakpointSize::from_bits(kani::any::<u64>() % 4).unwrap();
    if kani::any() {
        v.set_condition(n, c);
        vp!(C19, v.bits() == (before & !(3 << sh)) | ((c as u64) << sh), "set_condition changed something other than its 2-bit field");
        vp!(C19, v.condition(n) == c, "condition does not read back");
    } else {
        v.set_size(n, z);
        vp!(C19, v.bits() == (before & !(3 << (sh + 2))) | ((z as u64) << (sh + 2)), "set_size changed something other than its 2-bit field");
        vp!(C19, v.size(n) == z, "size does not read back");
    }
    // flag editing leaves the fields alone
    let f = Dr7Flags::from_bits_truncate(kani::any());
    let mut w = Dr7Value::from_bits_truncate(bits);
    match kani::any::<u8>() % 4 {
        0 => {
            w.insert_flags(f);
            vp!(C19, w.bits() == before | f.bits(), "insert_flags is not OR");
        }
        1 => {
            w.remove_flags(f);
            vp!(C19, w.bits() == before & !f.bits(), "remove_flags is not AND-NOT");
        }
        2 => {
            w.toggle_flags(f);
            vp!(C19, w.bits() == before ^ f.bits(), "toggle_flags is not XOR");
        }
        _ => {
            let on: bool = kani::any();
            w.set_flags(f, on);
            vp!(C19, w.bits() == if on { before | f.bits() } else { before & !f.bits() }, "set_flags is not insert/remove");
        }
    }
    vp!(C19, Dr7Value::from(f).bits() == f.bits(), "From<Dr7Flags> changed the flags");
    kani::cover!(n.get() == 3 && (bits >> 31) & 1 == 1);
}

#[kani::proof]
fn c19_pcid_range() {
    let p: u16 = kani::any();
    match Pcid::new(p) {
        Ok(x) => vp!(C19, p < 4096 && x.value() == p, "Pcid::new accepted a value >= 4096 or changed it"),
        Err(_) => vp!(C19, p >= 4096, "Pcid::new rejected a valid PCID"),
    }
    kani::cover!(p == 4095);
    kani::cover!(p == 4096);
}

#[kani::proof]
fn c19_selector_error_code_fields() {
    let v: u64 = kani::any();
    match SelectorErrorCode::new(v) {
        Some(e) => {
            vp!(C19, v <= 0xffff, "SelectorErrorCode::new accepted a value above 16 bits");
            // SDM vol.3A 6.13 fig. 6-7: EXT bit 0, IDT bit 1, TI bit 2, index bits 3-15
            vp!(C19, e.external() == (v & 1 == 1), "external() is not bit 0");
            let want = if v & 2 != 0 { DescriptorTable::Idt } else if v & 4 != 0 { DescriptorTable::Ldt } else { DescriptorTable::Gdt };
            vp!(C19, e.descriptor_table() == want, "descriptor_table() is not IDT/TI decoding");
            vp!(C19, e.index() == v >> 3, "index() is not bits 3-15");
            vp!(C19, e.is_null() == (v == 0), "is_null() is not 'all zero'");
        }
        None => vp!(C19, v > 0xffff, "SelectorErrorCode::new rejected a 16-bit value"),
    }
    let t = SelectorErrorCode::new_truncate(v);
    vp!(C19, t.index() == (v & 0xffff) >> 3 && t.external() == (v & 1 == 1), "new_truncate is not the low 16 bits");
    kani::cover!(v & 6 == 6);
    kani::cover!(v == 0x1_0000);
}

#[kani::proof]
fn c19_mxcsr_default() {
    vp!(C19, MxCsr::default().bits() == 0x1f80, "MxCsr::default is not the reset value 1F80H");
}
