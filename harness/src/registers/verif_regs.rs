//! C16 -- system-register wrappers over the ISA model (child module of `registers`).
//! C03 -- addresses read from registers are valid.
//!
//! For every wrapper: the machine state is arbitrary, the argument is arbitrary; afterwards exactly
//! the named register differs (a whole-machine compare), it holds the value the statement dictates,
//! and no MSR other than the declared one was touched.  MSR numbers and bit positions used here are
//! typed in from SDM vol.3A 2.5 / vol.4 table 2-2 and APM vol.2 3.1 / appendix A, not taken from the crate.
use super::control::*;
use super::debug::*;
use super::model_specific::*;
use super::segmentation::{Segment, Segment64, SegmentSelector, CS, DS, ES, FS, GS, SS};
use super::xcontrol::{XCr0, XCr0Flags};
use super::{mxcsr, rflags};
use crate::instructions::tlb::Pcid;
use crate::structures::paging::{Page, PhysFrame, Size4KiB};
use crate::verif_isa as isa;
use crate::verif_isa::{havoc, m, Machine};
use crate::verif_oracle::*;
use crate::{PhysAddr, PrivilegeLevel, VirtAddr};

// ---- oracle: architectural MSR numbers
const MSR_EFER: u32 = 0xC000_0080;
const MSR_STAR: u32 = 0xC000_0081;
const MSR_LSTAR: u32 = 0xC000_0082;
const MSR_SFMASK: u32 = 0xC000_0084;
const MSR_U_CET: u32 = 0x6A0;
const MSR_S_CET: u32 = 0x6A2;
const MSR_PAT: u32 = 0x277;
const MSR_APIC_BASE: u32 = 0x1B;
const PHYS_FRAME_MASK: u64 = 0x000f_ffff_ffff_f000;

fn any_frame() -> PhysFrame {
    let a = any_phys();
    kani::assume(a % 4096 == 0);
    PhysFrame::from_start_address(PhysAddr::new(a)).unwrap()
}
fn any_virt() -> VirtAddr {
    VirtAddr::new(any_canonical())
}
/// Machine with one declared MSR in slot 0.
fn havoc_msr(index: u32) -> Machine {
    let _ = havoc();
    isa::declare_msr(0, index);
    *m()
}
/// `want` is `before` with the expected change applied; compare the whole machine.
fn only_changed(want: &Machine) -> bool {
    m().arch_eq(want) && m().clean()
}

// ================================================================= plain flag registers
/// $get/$set: accessors of the backing register in a `Machine`.
macro_rules! flag_register {
    ($name:ident, $Reg:ident, $Flags:ident, $havoc:expr, |$g:ident| $get:expr, |$s:ident, $v:ident| $set:expr) => {
        mod $name {
            use super::*;
            fn get($g: &Machine) -> u64 { $get }
            fn set($s: &mut Machine, $v: u64) { $set }
            const MODELLED: u64 = $Flags::all().bits();

            #[kani::proof]
            fn c16_read() {
                let before: Machine = $havoc;
                let raw = $Reg::read_raw();
                vp!(C16, raw == get(&before), "read_raw did not return the register's full 64-bit value");
                vp!(C16, only_changed(&before), "read_raw changed machine state or touched another register");
                let f = $Reg::read();
                vp!(C16, f.bits() == get(&before) & MODELLED, "read() is not exactly the modelled bits of the raw value");
                vp!(C16, only_changed(&before), "read() changed machine state or touched another register");
                kani::cover!(get(&before) & !MODELLED != 0);
            }

            #[kani::proof]
            fn c16_write_raw() {
                let before: Machine = $havoc;
                let v: u64 = kani::any();
                unsafe { $Reg::write_raw(v) };
                let mut want = before;
                set(&mut want, v);
                vp!(C16, only_changed(&want), "write_raw did not store exactly the given value in exactly this register");
                kani::cover!(v >> 32 != 0);
            }

            #[kani::proof]
            fn c16_write_preserves_unmodelled() {
                let before: Machine = $havoc;
                let f = $Flags::from_bits_truncate(kani::any());
                unsafe { $Reg::write(f) };
                let mut want = before;
                set(&mut want, (get(&before) & !MODELLED) | f.bits());
                vp!(C16, only_changed(&want), "write() did not store the flags while preserving every unmodelled bit");
                vp!(C16, $Reg::read() == f, "read() after write() does not return what was written");
                kani::cover!(get(&before) & !MODELLED != 0 && f.bits() != 0);
            }

            #[kani::proof]
            fn c16_update_is_rmw() {
                let before: Machine = $havoc;
                let (set_mask, clr_mask) = ($Flags::from_bits_truncate(kani::any()), $Flags::from_bits_truncate(kani::any()));
                let mut seen = $Flags::empty();
                unsafe {
                    $Reg::update(|f| {
                        seen = *f;
                        f.insert(set_mask);
                        f.remove(clr_mask);
                    })
                };
                vp!(C16, seen.bits() == get(&before) & MODELLED, "update() closure did not see the current typed value");
                let newf = ((get(&before) & MODELLED) | set_mask.bits()) & !clr_mask.bits();
                let mut want = before;
                set(&mut want, (get(&before) & !MODELLED) | newf);
                vp!(C16, only_changed(&want), "update() is not read-modify-write");
                kani::cover!(get(&before) & !MODELLED != 0);
            }
        }
    };
}
flag_register!(cr0, Cr0, Cr0Flags, havoc(), |mm| mm.cr[0], |mm, v| mm.cr[0] = v);
flag_register!(cr4, Cr4, Cr4Flags, havoc(), |mm| mm.cr[4], |mm, v| mm.cr[4] = v);
flag_register!(efer, Efer, EferFlags, havoc_msr(MSR_EFER), |mm| mm.msr_val[0], |mm, v| mm.msr_val[0] = v);

// ================================================================= CR2 / CR3
#[kani::proof]
fn c16_cr2_read() {
    let before = havoc();
    vp!(C16, Cr2::read_raw() == before.cr[2], "Cr2::read_raw is not CR2");
    match Cr2::read() {
        Ok(a) => {
            vp!(C16, a.as_u64() == before.cr[2], "Cr2::read changed the address");
            vp!(C03, is_canonical(a.as_u64()), "Cr2::read returned a non-canonical VirtAddr");
        }
        Err(e) => vp!(C16, !is_canonical(before.cr[2]) && e.0 == before.cr[2], "Cr2::read rejected a canonical CR2"),
    }
    vp!(C16, only_changed(&before), "reading CR2 changed machine state");
    kani::cover!(!is_canonical(before.cr[2]));
}

#[kani::proof]
fn c16_cr3_read() {
    let before = havoc();
    let c = before.cr[3];
    let (f, fl) = Cr3::read();
    vp!(C16, f.start_address().as_u64() == c & PHYS_FRAME_MASK, "Cr3::read frame is not bits 12-51 of CR3");
    vp!(C16, fl.bits() == c & ((1 << 3) | (1 << 4)), "Cr3::read flags are not PWT/PCD of CR3");
    let (f2, low) = Cr3::read_raw();
    vp!(C16, f2 == f && low as u64 == c & 0xfff, "Cr3::read_raw is not (frame, low 12 bits)");
    let (f3, pcid) = Cr3::read_pcid();
    vp!(C16, f3 == f && pcid.value() as u64 == c & 0xfff, "Cr3::read_pcid is not (frame, CR3[11:0])");
    vp!(C03, is_phys(f.start_address().as_u64()), "Cr3::read produced an invalid physical address");
    vp!(C16, only_changed(&before), "reading CR3 changed machine state");
    kani::cover!(c >> 52 != 0);
}

#[kani::proof]
fn c16_cr3_write() {
    let before = havoc();
    let frame = any_frame();
    let fa = frame.start_address().as_u64();
    let mut want = before;
    match kani::any::<u8>() % 4 {
        0 => {
            let fl = Cr3Flags::from_bits_truncate(kani::any());
            unsafe { Cr3::write(frame, fl) };
            want.cr[3] = fa + fl.bits();
            vp!(C16, only_changed(&want), "Cr3::write did not store frame | flags in CR3");
            vp!(C16, Cr3::read() == (frame, fl), "Cr3::read after write does not return frame and flags");
        }
        1 => {
            let p: u16 = kani::any();
            kani::assume(p < 4096);
            let pcid = Pcid::new(p).unwrap();
            unsafe { Cr3::write_pcid(frame, pcid) };
            want.cr[3] = fa + p as u64;
            vp!(C16, only_changed(&want), "Cr3::write_pcid did not store frame | pcid in CR3");
            vp!(C16, Cr3::read_pcid() == (frame, pcid), "Cr3::read_pcid after write_pcid does not return frame and PCID");
        }
        2 => {
            let p: u16 = kani::any();
            kani::assume(p < 4096);
            let pcid = Pcid::new(p).unwrap();
            unsafe { Cr3::write_pcid_no_flush(frame, pcid) };
            want.cr[3] = (1 << 63) + fa + p as u64; // SDM vol.3A 4.10.4.1: bit 63 = do not invalidate
            vp!(C16, only_changed(&want), "Cr3::write_pcid_no_flush did not store bit63 | frame | pcid in CR3");
            vp!(C16, Cr3::read_pcid() == (frame, pcid), "Cr3::read_pcid after write_pcid_no_flush does not return frame and PCID");
        }
        _ => {
            let v: u16 = kani::any();
            unsafe { Cr3::write_raw(frame, v) };
            want.cr[3] = fa | v as u64;
            vp!(C16, only_changed(&want), "Cr3::write_raw did not store frame | value in CR3");
            if v < 4096 {
                vp!(C16, Cr3::read_raw() == (frame, v), "Cr3::read_raw after write_raw does not return frame and value");
            }
        }
    }
    vp!(C16, m().count(isa::EV_MOV_TO_CR) == 1, "not exactly one mov to CR3");
    kani::cover!(fa >> 48 != 0);
}

#[kani::proof]
fn c16_cr3_update() {
    let before = havoc();
    let c = before.cr[3];
    let nf = any_frame();
    let mut want = before;
    match kani::any::<u8>() % 3 {
        0 => {
            let nfl = Cr3Flags::from_bits_truncate(kani::any());
            let mut seen = None;
            unsafe {
                Cr3::update(|f, fl| {
                    seen = Some((*f, *fl));
                    *f = nf;
                    *fl = nfl;
                })
            };
            vp!(C16, seen.map(|(f, fl)| (f.start_address().as_u64(), fl.bits())) == Some((c & PHYS_FRAME_MASK, c & 0x18)), "Cr3::update closure did not see the current value");
            want.cr[3] = nf.start_address().as_u64() + nfl.bits();
            vp!(C16, only_changed(&want), "Cr3::update is not read-modify-write");
        }
        1 => {
            let p: u16 = kani::any();
            kani::assume(p < 4096);
            let mut seen = None;
            unsafe {
                Cr3::update_pcid(|f, pc| {
                    seen = Some((*f, pc.value()));
                    *f = nf;
                    *pc = Pcid::new(p).unwrap();
                })
            };
            vp!(C16, seen.map(|(f, pc)| (f.start_address().as_u64(), pc as u64)) == Some((c & PHYS_FRAME_MASK, c & 0xfff)), "Cr3::update_pcid closure did not see the current value");
            want.cr[3] = nf.start_address().as_u64() + p as u64;
            vp!(C16, only_changed(&want), "Cr3::update_pcid is not read-modify-write");
        }
        _ => {
            let p: u16 = kani::any();
            kani::assume(p < 4096);
            unsafe {
                Cr3::update_pcid_no_flush(|f, pc| {
                    *f = nf;
                    *pc = Pcid::new(p).unwrap();
                })
            };
            want.cr[3] = (1 << 63) + nf.start_address().as_u64() + p as u64;
            vp!(C16, only_changed(&want), "Cr3::update_pcid_no_flush is not read-modify-write with bit 63");
        }
    }
    kani::cover!(c & 0xfff != 0);
}

// ================================================================= XCR0
mod xcr0 {
    use super::*;
    const MODELLED: u64 = XCr0Flags::all().bits();
    /// The documented validity rules of XCR0 (SDM vol.1 13.3): x87 always, AVX needs SSE, MPX pair,
    /// AVX-512 triple together and only with AVX.
    fn valid(f: u64) -> bool {
        let b = |n: u32| f & (1 << n) != 0;
        b(0) && (!b(2) || b(1)) && (b(3) == b(4)) && ((b(5) == b(6)) && (b(6) == b(7))) && (!b(5) || b(2))
    }
    #[kani::proof]
    fn c16_xcr0_read_write_raw() {
        let before = havoc();
        vp!(C16, XCr0::read_raw() == before.xcr0, "XCr0::read_raw is not XCR0 (EDX:EAX of xgetbv with ECX=0)");
        vp!(C16, XCr0::read().bits() == before.xcr0 & MODELLED, "XCr0::read is not the modelled bits");
        vp!(C16, only_changed(&before), "reading XCR0 changed machine state");
        let v: u64 = kani::any();
        unsafe { XCr0::write_raw(v) };
        let mut want = before;
        want.xcr0 = v;
        vp!(C16, only_changed(&want), "XCr0::write_raw did not store exactly the given value (xsetbv, ECX=0)");
        kani::cover!(v >> 32 != 0 && before.xcr0 >> 32 != 0);
    }
    #[kani::proof]
    fn c16_xcr0_write_valid() {
        let before = havoc();
        let f = XCr0Flags::from_bits_truncate(kani::any());
        kani::assume(valid(f.bits()));
        unsafe { XCr0::write(f) };
        let mut want = before;
        want.xcr0 = (before.xcr0 & !MODELLED) | f.bits();
        vp!(C16, only_changed(&want), "XCr0::write did not store the flags while preserving unmodelled bits");
        vp!(C16, XCr0::read() == f, "XCr0::read after write does not return what was written");
        kani::cover!(f.bits() & (1 << 5) != 0);
        kani::cover!(f.bits() & (1 << 3) != 0);
    }
    #[kani::proof]
    fn c16_xcr0_write_invalid_xpanic() {
        let before = havoc();
        let f = XCr0Flags::from_bits_truncate(kani::any());
        kani::assume(!valid(f.bits()));
        kani::cover!(f.bits() & 1 == 0);
        kani::cover!(f.bits() & 0b111 == 0b101);
        unsafe { XCr0::write(f) };
        vp!(C16, false, "XCr0::write accepted an invalid feature combination");
    }
    /// ... and rejects it *before* executing xsetbv
    #[kani::proof]
    fn c16_xcr0_write_invalid_no_xsetbv_mpanic() {
        let _ = havoc();
        let f = XCr0Flags::from_bits_truncate(kani::any());
        kani::assume(!valid(f.bits()));
        // the check below is evaluated on every path that reaches an xsetbv
        unsafe { XCr0::write(f) };
        vp!(C16, m().count(isa::EV_XSETBV) == 0, "unreachable");
    }
    #[kani::proof]
    fn c16_xcr0_update() {
        let before = havoc();
        kani::assume(valid(before.xcr0 & MODELLED));
        // closure toggles AVX-512 as a whole if AVX is on: stays valid
        let t: bool = kani::any();
        unsafe {
            XCr0::update(|f| {
                if t && f.contains(XCr0Flags::AVX) {
                    f.toggle(XCr0Flags::OPMASK | XCr0Flags::ZMM_HI256 | XCr0Flags::HI16_ZMM);
                }
            })
        };
        let old = before.xcr0 & MODELLED;
        let newf = if t && old & 4 != 0 { old ^ 0xe0 } else { old };
        let mut want = before;
        want.xcr0 = (before.xcr0 & !MODELLED) | newf;
        vp!(C16, only_changed(&want), "XCr0::update is not read-modify-write");
        kani::cover!(t && old & 4 != 0);
    }
}

// ================================================================= debug registers
#[kani::proof]
fn c16_dr0_3() {
    let before = havoc();
    let v: u64 = kani::any();
    let n: usize = kani::any();
    kani::assume(n < 4);
    let got = match n {
        0 => Dr0::read(),
        1 => Dr1::read(),
        2 => Dr2::read(),
        _ => Dr3::read(),
    };
    vp!(C16, got == before.dr[n], "DrN::read is not debug register N");
    vp!(C16, only_changed(&before), "reading DRn changed machine state");
    match n {
        0 => Dr0::write(v),
        1 => Dr1::write(v),
        2 => Dr2::write(v),
        _ => Dr3::write(v),
    }
    let mut want = before;
    want.dr[n] = v;
    vp!(C16, only_changed(&want), "DrN::write did not store exactly the value in exactly debug register N");
    vp!(C16, Dr0::NUM.get() == 0 && Dr1::NUM.get() == 1 && Dr2::NUM.get() == 2 && Dr3::NUM.get() == 3, "DebugAddressRegister::NUM wrong");
    kani::cover!(n == 3);
}

mod dr7 {
    use super::*;
    // SDM vol.3B 18.2.4: L0-G3 bits 0-7, LE 8, GE 9, RTM 11, GD 13, R/W+LEN fields bits 16-31
    const MODELLED: u64 = 0xffff_0000 | 0xff | (1 << 8) | (1 << 9) | (1 << 11) | (1 << 13);
    #[kani::proof]
    fn c16_dr6_dr7_read() {
        let before = havoc();
        vp!(C16, Dr6::read_raw() == before.dr[6], "Dr6::read_raw is not DR6");
        vp!(C16, Dr6::read().bits() == before.dr[6] & Dr6Flags::all().bits(), "Dr6::read is not the modelled bits of DR6");
        vp!(C16, Dr7::read_raw() == before.dr[7], "Dr7::read_raw is not DR7");
        vp!(C16, Dr7::read().bits() == before.dr[7] & MODELLED, "Dr7::read is not exactly the modelled bits (flags and all four condition/size fields)");
        vp!(C16, only_changed(&before), "reading DR6/DR7 changed machine state");
        kani::cover!(before.dr[7] >> 28 & 0xf != 0);
    }
    #[kani::proof]
    fn c16_dr7_write() {
        let before = havoc();
        let v: u64 = kani::any();
        if kani::any() {
            Dr7::write_raw(v);
            let mut want = before;
            want.dr[7] = v;
            vp!(C16, only_changed(&want), "Dr7::write_raw did not store exactly the given value");
        } else {
            let val = Dr7Value::from_bits_truncate(v);
            vp!(C16, val.bits() == v & MODELLED, "Dr7Value::from_bits_truncate is not the modelled bits");
            Dr7::write(val);
            let mut want = before;
            want.dr[7] = (before.dr[7] & !MODELLED) | (v & MODELLED);
            vp!(C16, only_changed(&want), "Dr7::write did not store the value while preserving unmodelled bits");
            vp!(C16, Dr7::read() == val, "Dr7::read after write does not return what was written");
        }
        kani::cover!(before.dr[7] & !MODELLED != 0 && v >> 28 & 0xf != 0);
    }
    #[kani::proof]
    fn c16_dr7_update() {
        let before = havoc();
        let n = DebugAddressRegisterNumber::new(kani::any::<u8>() % 4).unwrap();
        let size = BreakpointSize::from_bits(kani::any::<u64>() % 4).unwrap();
        let cond = BreakpointCondition::from_bits(kani::any::<u64>() % 4).unwrap();
        Dr7::update(|v| {
            v.set_size(n, size);
            v.set_condition(n, cond);
        });
        let sh = 16 + 4 * n.get() as u64;
        let old = before.dr[7] & MODELLED;
        let newv = (old & !(0xf << sh)) | ((cond as u64) << sh) | ((size as u64) << (sh + 2));
        let mut want = before;
        want.dr[7] = (before.dr[7] & !MODELLED) | newv;
        vp!(C16, only_changed(&want), "Dr7::update is not read-modify-write of the chosen breakpoint's fields");
        kani::cover!(n.get() == 3 && size as u64 == 2);
    }
}

// ================================================================= address-valued MSRs
macro_rules! addr_msr {
    ($name:ident, $Reg:ident, $havoc:expr, |$g:ident| $get:expr, |$s:ident, $v:ident| $set:expr) => {
        #[kani::proof]
        fn $name() {
            let before: Machine = $havoc;
            fn get($g: &Machine) -> u64 { $get }
            fn set($s: &mut Machine, $v: u64) { $set }
            let a = any_virt();
            $Reg::write(a);
            let mut want = before;
            set(&mut want, a.as_u64());
            vp!(C16, only_changed(&want), "address MSR write did not store exactly the address in exactly this MSR");
            vp!(C16, $Reg::read() == a, "address MSR read after write does not return the address");
            vp!(C16, only_changed(&want), "address MSR read changed machine state");
            vp!(C16, m().count(isa::EV_WRMSR) == 1 && m().count(isa::EV_RDMSR) == 1, "not exactly one wrmsr and one rdmsr");
            kani::cover!(a.as_u64() >> 63 == 1);
        }
    };
}
addr_msr!(c16_fsbase_msr, FsBase, havoc(), |mm| mm.fs_base, |mm, v| mm.fs_base = v);
addr_msr!(c16_gsbase_msr, GsBase, havoc(), |mm| mm.gs_base, |mm, v| mm.gs_base = v);
addr_msr!(c16_kernelgsbase_msr, KernelGsBase, havoc(), |mm| mm.kernel_gs_base, |mm, v| mm.kernel_gs_base = v);
addr_msr!(c16_lstar_msr, LStar, havoc_msr(MSR_LSTAR), |mm| mm.msr_val[0], |mm, v| mm.msr_val[0] = v);

#[kani::proof]
fn c16_msr_raw_access() {
    let idx: u32 = kani::any();
    kani::assume(idx != isa::IA32_FS_BASE && idx != isa::IA32_GS_BASE && idx != isa::IA32_KERNEL_GS_BASE);
    let before = havoc_msr(idx);
    let mut msr = Msr::new(idx);
    vp!(C16, unsafe { msr.read() } == before.msr_val[0], "Msr::read is not EDX:EAX of rdmsr for the given index");
    let v: u64 = kani::any();
    unsafe { msr.write(v) };
    let mut want = before;
    want.msr_val[0] = v;
    vp!(C16, only_changed(&want), "Msr::write did not store the full 64-bit value in the given MSR");
    kani::cover!(v >> 32 != 0 && v & 0xffff_ffff != 0);
}

// ================================================================= STAR
#[kani::proof]
fn c16_star() {
    let before = havoc_msr(MSR_STAR);
    let (a, b, c, d): (u16, u16, u16, u16) = (kani::any(), kani::any(), kani::any(), kani::any());
    let (cs_sysret, ss_sysret, cs_syscall, ss_syscall) = (SegmentSelector(a), SegmentSelector(b), SegmentSelector(c), SegmentSelector(d));
    // documented acceptance: CS/SS pairs 8 apart (sysret CS = base+16, SS = base+8; syscall SS = CS+8),
    // sysret selectors ring 3, syscall selectors ring 0
    let ok = a as i32 - 16 == b as i32 - 8 && c as i32 == d as i32 - 8 && b & 3 == 3 && d & 3 == 0;
    // outside the claim: a SYSRET stack selector below 8 (the null descriptor's slot) has no
    // representable base; the code panics in debug builds on `ss_sysret - 8`
    kani::assume(!(ok && b < 8));
    match Star::write(cs_sysret, ss_sysret, cs_syscall, ss_syscall) {
        Ok(()) => {
            vp!(C16, ok, "Star::write accepted an invalid selector combination");
            let mut want = before;
            // SDM vol.4 / APM vol.2 6.1.1: STAR[63:48] = SYSRET CS/SS base, STAR[47:32] = SYSCALL CS/SS base
            want.msr_val[0] = (((b - 8) as u64) << 48) | ((c as u64) << 32);
            vp!(C16, only_changed(&want), "Star::write did not store the selector bases in STAR[63:32] (low half 0)");
            vp!(C16, Star::read() == (cs_sysret, ss_sysret, cs_syscall, ss_syscall), "Star::read after write does not return the four selectors");
            vp!(C16, Star::read_raw() == (b - 8, c), "Star::read_raw after write is not (sysret base, syscall base)");
        }
        Err(_) => {
            vp!(C16, !ok, "Star::write rejected a valid selector combination");
            vp!(C16, only_changed(&before) && m().count(isa::EV_WRMSR) == 0, "rejected Star::write still wrote the MSR");
        }
    }
    kani::cover!(ok);
    kani::cover!(!ok && a as i32 - 16 == b as i32 - 8 && c as i32 == d as i32 - 8);
}

#[kani::proof]
fn c16_star_raw() {
    let before = havoc_msr(MSR_STAR);
    let (sr, sc) = Star::read_raw();
    vp!(C16, sr as u64 == before.msr_val[0] >> 48 && sc as u64 == (before.msr_val[0] >> 32) & 0xffff, "Star::read_raw is not STAR[63:48], STAR[47:32]");
    let (x, y): (u16, u16) = (kani::any(), kani::any());
    unsafe { Star::write_raw(x, y) };
    let mut want = before;
    want.msr_val[0] = ((x as u64) << 48) | ((y as u64) << 32);
    vp!(C16, only_changed(&want), "Star::write_raw did not store the two bases");
    kani::cover!(x != 0 && y != 0);
}

// ================================================================= SFMASK
#[kani::proof]
fn c16_sfmask() {
    let before = havoc_msr(MSR_SFMASK);
    let f = rflags::RFlags::from_bits_truncate(kani::any());
    SFMask::write(f);
    let mut want = before;
    want.msr_val[0] = f.bits();
    vp!(C16, only_changed(&want), "SFMask::write did not store exactly the flags in SFMASK");
    vp!(C16, SFMask::read() == f, "SFMask::read after write does not return the flags");
    let (s, c) = (rflags::RFlags::from_bits_truncate(kani::any()), rflags::RFlags::from_bits_truncate(kani::any()));
    SFMask::update(|x| {
        x.insert(s);
        x.remove(c);
    });
    want.msr_val[0] = (f.bits() | s.bits()) & !c.bits();
    vp!(C16, only_changed(&want), "SFMask::update is not read-modify-write");
    kani::cover!(f.bits() & (1 << 9) != 0);
}

// ================================================================= U_CET / S_CET
macro_rules! cet_msr {
    ($name:ident, $Reg:ident, $IDX:expr) => {
        #[kani::proof]
        fn $name() {
            let before = havoc_msr($IDX);
            let fl = CetFlags::from_bits_truncate(kani::any());
            let pa = any_canonical();
            kani::assume(pa % 4096 == 0);
            let page = Page::<Size4KiB>::from_start_address(VirtAddr::new(pa)).unwrap();
            $Reg::write(fl, page);
            let mut want = before;
            want.msr_val[0] = fl.bits() | pa;
            vp!(C16, only_changed(&want), "CET write did not store flags | legacy bitmap page");
            vp!(C16, $Reg::read() == (fl, page), "CET read after write does not return flags and page");
            let nf = CetFlags::from_bits_truncate(kani::any());
            $Reg::update(|f, _p| *f = nf);
            want.msr_val[0] = nf.bits() | pa;
            vp!(C16, only_changed(&want), "CET update is not read-modify-write");
            kani::cover!(pa >> 63 == 1 && fl.bits() != 0);
        }
    };
}
cet_msr!(c16_ucet, UCet, MSR_U_CET);
cet_msr!(c16_scet, SCet, MSR_S_CET);

// ================================================================= PAT
#[kani::proof]
fn c16_pat() {
    let before = havoc_msr(MSR_PAT);
    let codes: [u8; 6] = [0, 1, 4, 5, 6, 7]; // SDM vol.3A table 12-10
    let mut table = [PatMemoryType::Uncacheable; 8];
    let mut want_raw: u64 = 0;
    let mut i = 0;
    while i < 8 {
        let c = codes[(kani::any::<u8>() % 6) as usize];
        table[i] = PatMemoryType::from_bits(c).unwrap();
        vp!(C19, table[i].bits() == c, "PatMemoryType::from_bits/bits do not round-trip");
        want_raw |= (c as u64) << (8 * i); // PA0 in bits 2:0 ... PA7 in bits 58:56
        i += 1;
    }
    unsafe { Pat::write(table) };
    let mut want = before;
    want.msr_val[0] = want_raw;
    vp!(C16, only_changed(&want), "Pat::write did not store entry i in byte i of IA32_PAT");
    let back = Pat::read();
    let j: usize = kani::any();
    kani::assume(j < 8);
    vp!(C16, back[j] == table[j], "Pat::read after write does not return the table");
    kani::cover!(want_raw >> 56 == 7);
}

// ================================================================= APIC base
#[kani::proof]
fn c16_apic_base_read() {
    let before = havoc_msr(MSR_APIC_BASE);
    let raw = before.msr_val[0];
    let (f, fl) = ApicBase::read();
    vp!(C16, f.start_address().as_u64() == raw & PHYS_FRAME_MASK, "ApicBase::read frame is not bits 12-51");
    vp!(C16, fl.bits() == raw & ((1 << 8) | (1 << 10) | (1 << 11)), "ApicBase::read flags are not BSP/EXTD/EN");
    let (f2, r2) = ApicBase::read_raw();
    vp!(C16, f2 == f && r2 == raw, "ApicBase::read_raw is not (frame, raw value)");
    vp!(C03, is_phys(f.start_address().as_u64()), "ApicBase::read produced an invalid physical address");
    vp!(C16, only_changed(&before), "reading IA32_APIC_BASE changed machine state");
    kani::cover!(raw >> 52 != 0);
}

#[kani::proof]
fn c16_apic_base_write() {
    let before = havoc_msr(MSR_APIC_BASE);
    let old = before.msr_val[0];
    let frame = any_frame();
    let fl = ApicBaseFlags::from_bits_truncate(kani::any());
    const FLAGS: u64 = (1 << 8) | (1 << 10) | (1 << 11);
    unsafe { ApicBase::write(frame, fl) };
    let mut want = before;
    // typed write: given frame and flags are stored, every bit the type does not model (0-7, 9, 52-63) is preserved
    want.msr_val[0] = (old & !FLAGS & !PHYS_FRAME_MASK) | fl.bits() | frame.start_address().as_u64();
    vp!(C16, only_changed(&want), "ApicBase::write did not store frame and flags while preserving the unmodelled bits (old base-address bits leak into the new value)");
    vp!(C16, ApicBase::read() == (frame, fl), "ApicBase::read after write does not return frame and flags");
    kani::cover!(old & PHYS_FRAME_MASK != 0 && frame.start_address().as_u64() != old & PHYS_FRAME_MASK);
}

#[kani::proof]
fn c16_apic_base_write_raw() {
    let before = havoc_msr(MSR_APIC_BASE);
    let frame = any_frame();
    let v: u64 = kani::any();
    unsafe { ApicBase::write_raw(frame, v) };
    let mut want = before;
    want.msr_val[0] = v | frame.start_address().as_u64();
    vp!(C16, only_changed(&want), "ApicBase::write_raw did not store value | frame");
    kani::cover!(true);
}

// ================================================================= segment registers
macro_rules! seg_harness {
    ($name:ident, $Seg:ident, $id:expr) => {
        #[kani::proof]
        fn $name() {
            let before = havoc();
            vp!(C16, $Seg::get_reg().0 == before.seg[$id], "get_reg did not read this segment register");
            vp!(C16, only_changed(&before), "get_reg changed machine state");
            let s = SegmentSelector(kani::any());
            unsafe { $Seg::set_reg(s) };
            let mut want = before;
            want.seg[$id] = s.0;
            vp!(C16, only_changed(&want), "set_reg did not load exactly this segment register with the selector");
            vp!(C16, $Seg::get_reg() == s, "get_reg after set_reg does not return the selector");
            kani::cover!(s.0 == 0xffff);
        }
    };
}
seg_harness!(c16_seg_ss, SS, isa::SS);
seg_harness!(c16_seg_ds, DS, isa::DS);
seg_harness!(c16_seg_es, ES, isa::ES);
seg_harness!(c16_seg_fs, FS, isa::FS);
seg_harness!(c16_seg_gs, GS, isa::GS);

#[kani::proof]
fn c16_seg_cs_far_return() {
    let before = havoc();
    vp!(C16, CS::get_reg().0 == before.seg[isa::CS], "CS::get_reg did not read CS");
    let s = SegmentSelector(kani::any());
    m().nlog = 0;
    unsafe { CS::set_reg(s) };
    let mut want = before;
    want.seg[isa::CS] = s.0;
    vp!(C16, only_changed(&want), "CS::set_reg did not reload exactly CS with the selector");
    let e = m().last();
    vp!(C16, e.kind == isa::EV_RETFQ && e.a == s.0 as u64 && e.b == isa::LABEL_55, "CS::set_reg far return does not continue at the local label with the new CS");
    vp!(C16, m().sp == 0, "CS::set_reg left the stack unbalanced");
    kani::cover!(s.0 & 3 == 3);
}

#[kani::proof]
fn c16_seg_bases_swapgs_tss() {
    let before = havoc();
    let a = any_virt();
    let mut want = before;
    match kani::any::<u8>() % 6 {
        0 => {
            vp!(C16, FS::read_base().as_u64() == before.fs_base, "FS::read_base is not the FS base");
            vp!(C16, only_changed(&want), "FS::read_base changed machine state");
        }
        1 => {
            vp!(C16, GS::read_base().as_u64() == before.gs_base, "GS::read_base is not the GS base");
            vp!(C16, only_changed(&want), "GS::read_base changed machine state");
        }
        2 => {
            unsafe { FS::write_base(a) };
            want.fs_base = a.as_u64();
            vp!(C16, only_changed(&want), "FS::write_base did not store the address in the FS base");
            vp!(C16, FS::read_base() == a && FsBase::read() == a, "FS base written by wrfsbase is not returned by rdfsbase / the MSR");
        }
        3 => {
            unsafe { GS::write_base(a) };
            want.gs_base = a.as_u64();
            vp!(C16, only_changed(&want), "GS::write_base did not store the address in the GS base");
            vp!(C16, GS::read_base() == a && GsBase::read() == a, "GS base written by wrgsbase is not returned by rdgsbase / the MSR");
        }
        4 => {
            unsafe { GS::swap() };
            want.gs_base = before.kernel_gs_base;
            want.kernel_gs_base = before.gs_base;
            vp!(C16, only_changed(&want), "GS::swap is not swapgs");
        }
        _ => {
            let s = SegmentSelector(kani::any());
            unsafe { crate::instructions::tables::load_tss(s) };
            want.tr = s.0;
            vp!(C16, only_changed(&want), "load_tss did not load TR with the selector");
        }
    }
    // the MSR constants of the Segment64 impls name the same architectural registers
    vp!(C16, unsafe { <FS as Segment64>::BASE.read() } == m().fs_base && unsafe { <GS as Segment64>::BASE.read() } == m().gs_base, "Segment64::BASE is not the segment's base MSR");
    kani::cover!(true);
}

// ================================================================= RFLAGS / MXCSR
#[kani::proof]
fn c16_rflags() {
    let before = havoc();
    const MODELLED: u64 = rflags::RFlags::all().bits();
    vp!(C16, rflags::read_raw() == before.rflags, "rflags::read_raw is not RFLAGS");
    vp!(C16, rflags::read().bits() == before.rflags & MODELLED, "rflags::read is not the modelled bits");
    vp!(C16, only_changed(&before), "reading RFLAGS changed machine state");
    let mut want = before;
    if kani::any() {
        let v: u64 = kani::any();
        unsafe { rflags::write_raw(v) };
        want.rflags = v;
        vp!(C16, only_changed(&want), "rflags::write_raw did not store exactly the value");
    } else {
        let f = rflags::RFlags::from_bits_truncate(kani::any());
        unsafe { rflags::write(f) };
        want.rflags = (before.rflags & !MODELLED) | f.bits();
        vp!(C16, only_changed(&want), "rflags::write did not preserve the reserved bits");
        vp!(C16, rflags::read() == f, "rflags::read after write does not return the flags");
    }
    vp!(C16, m().sp == 0, "RFLAGS access left the stack unbalanced");
    kani::cover!(before.rflags & !MODELLED != 0);
}

#[kani::proof]
fn c16_mxcsr() {
    let before = havoc();
    const MODELLED: u32 = mxcsr::MxCsr::all().bits();
    vp!(C16, mxcsr::read().bits() == before.mxcsr & MODELLED, "mxcsr::read is not the modelled bits of MXCSR");
    vp!(C16, only_changed(&before), "reading MXCSR changed machine state");
    let f = mxcsr::MxCsr::from_bits_truncate(kani::any());
    mxcsr::write(f);
    let mut want = before;
    want.mxcsr = f.bits();
    vp!(C16, only_changed(&want), "mxcsr::write did not store exactly the flags");
    vp!(C16, mxcsr::read() == f, "mxcsr::read after write does not return the flags");
    vp!(C16, !m().opt_fault, "asm options promise no memory access (nomem / readonly) for stmxcsr / ldmxcsr, which write / read memory");
    kani::cover!(f.bits() != 0x1f80);
}

// ================================================================= descriptor-table registers
#[kani::proof]
fn c16_sgdt_sidt() {
    let before = havoc();
    kani::assume(is_canonical(before.gdtr_base) && is_canonical(before.idtr_base));
    let g = crate::instructions::tables::sgdt();
    let (gl, gb) = ({ g.limit }, { g.base });
    vp!(C16, gl == before.gdtr_limit && gb.as_u64() == before.gdtr_base, "sgdt did not return GDTR");
    let i = crate::instructions::tables::sidt();
    let (il, ib) = ({ i.limit }, { i.base });
    vp!(C16, il == before.idtr_limit && ib.as_u64() == before.idtr_base, "sidt did not return IDTR");
    vp!(C16, !m().opt_fault, "asm options promise no memory write (nomem / readonly) for sgdt / sidt, which store to memory");
    vp!(C16, only_changed(&before), "sgdt/sidt changed machine state");
    let p = crate::structures::DescriptorTablePointer { limit: kani::any(), base: any_virt() };
    let (pl, pb) = ({ p.limit }, { p.base });
    let mut want = before;
    if kani::any() {
        unsafe { crate::instructions::tables::lgdt(&p) };
        want.gdtr_limit = pl;
        want.gdtr_base = pb.as_u64();
        vp!(C16, only_changed(&want), "lgdt did not load GDTR from the pointer");
    } else {
        unsafe { crate::instructions::tables::lidt(&p) };
        want.idtr_limit = pl;
        want.idtr_base = pb.as_u64();
        vp!(C16, only_changed(&want), "lidt did not load IDTR from the pointer");
    }
    kani::cover!(true);
}
