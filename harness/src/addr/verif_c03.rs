//! C03 — address values are always valid (child module of `addr`: sees the private field).
use super::*;
use crate::verif_oracle::*;

#[kani::proof]
fn c03_virt_try_new_exact() {
    let x: u64 = kani::any();
    match VirtAddr::try_new(x) {
        Ok(v) => {
            vp!(C03, is_canonical(x), "try_new accepted a non-canonical value");
            vp!(C03, v.0 == x, "try_new changed a valid value");
            vp!(C03, v.as_u64() == x, "as_u64 differs from stored value");
        }
        Err(e) => {
            vp!(C03, !is_canonical(x), "try_new rejected a canonical value");
            vp!(C03, e.0 == x, "error does not carry the input");
        }
    }
    kani::cover!(is_canonical(x) && x >= UPPER_BASE);
    kani::cover!(!is_canonical(x));
}

#[kani::proof]
fn c03_virt_new_valid() {
    let x = any_canonical();
    let v = VirtAddr::new(x);
    vp!(C03, v.0 == x, "new changed a valid value");
    kani::cover!(true);
}

#[kani::proof]
fn c03_virt_new_invalid_xpanic() {
    let x: u64 = kani::any();
    kani::assume(!is_canonical(x));
    kani::cover!(true);
    let _v = VirtAddr::new(x);
    vp!(C03, false, "new returned for a non-canonical value");
}
