//! C03 — address values are always valid (child module of `addr`: sees the private field).
//!
//! Closure under composition is by induction on the type invariant: every harness starts from an
//! *arbitrary* value satisfying the invariant (constructed through the private field, not through
//! the code under test) and shows that the operation's result satisfies it again.
use super::*;
use crate::verif_oracle::*;
use core::iter::Step;

fn any_virt() -> VirtAddr {
    VirtAddr(any_canonical())
}
fn any_physaddr() -> PhysAddr {
    PhysAddr(any_phys())
}
fn any_pow2() -> u64 {
    let k: u32 = kani::any();
    kani::assume(k < 64);
    1u64 << k
}

// ---------------------------------------------------------------- VirtAddr constructors
#[kani::proof]
fn c03_virt_try_new_exact() {
    let x: u64 = kani::any();
    match VirtAddr::try_new(x) {
        Ok(v) => {
            vp!(C03, is_canonical(x), "try_new accepted a non-canonical value");
            vp!(C03, v.0 == x, "try_new changed a valid value");
            vp!(C03, v.as_u64() == x, "as_u64 differs from stored value");
        }
        Err(e) => {
            vp!(C03, !is_canonical(x), "try_new rejected a canonical value");
            vp!(C03, e.0 == x, "error does not carry the input");
        }
    }
    kani::cover!(is_canonical(x) && x >= UPPER_BASE);
    kani::cover!(!is_canonical(x));
}

#[kani::proof]
fn c03_virt_new_valid() {
    let x = any_canonical();
    let v = VirtAddr::new(x);
    vp!(C03, v.0 == x, "new changed a valid value");
    kani::cover!(true);
}

#[kani::proof]
fn c03_virt_new_invalid_xpanic() {
    let x: u64 = kani::any();
    kani::assume(!is_canonical(x));
    kani::cover!(true);
    let _v = VirtAddr::new(x);
    vp!(C03, false, "new returned for a non-canonical value");
}

#[kani::proof]
fn c03_virt_new_truncate() {
    let x: u64 = kani::any();
    let v = VirtAddr::new_truncate(x);
    vp!(C03, is_canonical(v.0), "new_truncate produced a non-canonical value");
    vp!(C03, v.0 == sign_extend48(x), "new_truncate is not sign extension of the low 48 bits");
    vp!(C03, VirtAddr::new_truncate(v.0).0 == v.0, "new_truncate is not idempotent");
    if is_canonical(x) {
        vp!(C03, v.0 == x, "new_truncate disagrees with the checked constructor on valid input");
    }
    let y: u64 = kani::any();
    kani::assume(y % (1 << 48) == x % (1 << 48));
    vp!(C03, VirtAddr::new_truncate(y).0 == v.0, "new_truncate depends on bits 48..64");
    kani::cover!(x != y);
}

#[kani::proof]
fn c03_virt_zero_and_null() {
    vp!(C03, VirtAddr::zero().0 == 0, "zero() is not 0");
    let v = any_virt();
    vp!(C03, v.is_null() == (v.0 == 0), "is_null wrong");
}

// ---------------------------------------------------------------- PhysAddr constructors
#[kani::proof]
fn c03_phys_try_new_exact() {
    let x: u64 = kani::any();
    match PhysAddr::try_new(x) {
        Ok(p) => {
            vp!(C03, is_phys(x), "PhysAddr::try_new accepted bits 52..64");
            vp!(C03, p.0 == x && p.as_u64() == x, "PhysAddr::try_new changed a valid value");
        }
        Err(e) => {
            vp!(C03, !is_phys(x), "PhysAddr::try_new rejected a valid value");
            vp!(C03, e.0 == x, "PhysAddr error does not carry the input");
        }
    }
    kani::cover!(!is_phys(x));
    kani::cover!(is_phys(x) && x > 0xf_0000_0000_0000);
}

#[kani::proof]
fn c03_phys_new_valid() {
    let x = any_phys();
    vp!(C03, PhysAddr::new(x).0 == x, "PhysAddr::new changed a valid value");
    kani::cover!(true);
}

#[kani::proof]
fn c03_phys_new_invalid_xpanic() {
    let x: u64 = kani::any();
    kani::assume(!is_phys(x));
    kani::cover!(true);
    let _p = PhysAddr::new(x);
    vp!(C03, false, "PhysAddr::new returned for an invalid value");
}

#[kani::proof]
fn c03_phys_new_truncate() {
    let x: u64 = kani::any();
    let p = PhysAddr::new_truncate(x);
    vp!(C03, is_phys(p.0), "PhysAddr::new_truncate left bits 52..64 set");
    vp!(C03, p.0 == x - (x >> 52 << 52), "PhysAddr::new_truncate is not x mod 2^52");
    vp!(C03, PhysAddr::new_truncate(p.0).0 == p.0, "PhysAddr::new_truncate not idempotent");
    if is_phys(x) {
        vp!(C03, p.0 == x, "PhysAddr::new_truncate disagrees with checked constructor");
    }
    let y: u64 = kani::any();
    kani::assume((y ^ x) << 12 == 0);
    vp!(C03, PhysAddr::new_truncate(y).0 == p.0, "PhysAddr::new_truncate depends on bits 52..64");
    vp!(C03, PhysAddr::zero().0 == 0, "PhysAddr::zero");
    kani::cover!(x != y);
}

// ---------------------------------------------------------------- alignment keeps the invariant
macro_rules! align_invariant {
    ($name:ident, $t:ty) => {
        #[kani::proof]
        fn $name() {
            let v = any_virt();
            let p = any_physaddr();
            let a: $t = kani::any();
            let which: u8 = kani::any();
            match which {
                0 => vp!(C03, is_canonical(v.align_up(a).0), "VirtAddr::align_up left the canonical range"),
                1 => vp!(C03, is_canonical(v.align_down(a).0), "VirtAddr::align_down left the canonical range"),
                2 => vp!(C03, is_phys(p.align_up(a).0), "PhysAddr::align_up left the 52-bit range"),
                _ => vp!(C03, is_phys(p.align_down(a).0), "PhysAddr::align_down left the 52-bit range"),
            }
            kani::cover!(which == 0);
            kani::cover!(which == 2);
        }
    };
}
align_invariant!(c03_align_invariant_u64_mpanic, u64);
align_invariant!(c03_align_invariant_u32_mpanic, u32);
align_invariant!(c03_align_invariant_u16_mpanic, u16);
align_invariant!(c03_align_invariant_u8_mpanic, u8);

// ---------------------------------------------------------------- operators keep the invariant
#[kani::proof]
fn c03_virt_ops_invariant_mpanic() {
    let v = any_virt();
    let n: u64 = kani::any();
    let which: u8 = kani::any();
    let r = match which {
        0 => v + n,
        1 => v - n,
        2 => {
            let mut w = v;
            w += n;
            w
        }
        _ => {
            let mut w = v;
            w -= n;
            w
        }
    };
    vp!(C03, is_canonical(r.0), "VirtAddr operator produced a non-canonical address");
    kani::cover!(which == 0 && n > 0);
    kani::cover!(which == 1 && n > 0);
    kani::cover!(which == 2);
    kani::cover!(which == 3);
}

#[kani::proof]
fn c03_phys_ops_invariant_mpanic() {
    let p = any_physaddr();
    let n: u64 = kani::any();
    let which: u8 = kani::any();
    let r = match which {
        0 => p + n,
        1 => p - n,
        2 => {
            let mut w = p;
            w += n;
            w
        }
        _ => {
            let mut w = p;
            w -= n;
            w
        }
    };
    vp!(C03, is_phys(r.0), "PhysAddr operator produced an address with bits 52..64");
    kani::cover!(which == 0 && n > 0);
    kani::cover!(which == 1 && n > 0);
}

// ---------------------------------------------------------------- Step keeps the invariant
#[kani::proof]
fn c03_virt_step_invariant() {
    let v = any_virt();
    let n: usize = kani::any();
    if let Some(r) = Step::forward_checked(v, n) {
        vp!(C03, is_canonical(r.0), "Step::forward_checked produced a non-canonical address");
    }
    if let Some(r) = Step::backward_checked(v, n) {
        vp!(C03, is_canonical(r.0), "Step::backward_checked produced a non-canonical address");
    }
    if let Some(r) = VirtAddr::forward_checked_u64(v, n as u64) {
        vp!(C03, is_canonical(r.0), "forward_checked_u64 produced a non-canonical address");
    }
    if let Some(r) = VirtAddr::backward_checked_u64(v, n as u64) {
        vp!(C03, is_canonical(r.0), "backward_checked_u64 produced a non-canonical address");
    }
    kani::cover!(Step::forward_checked(v, n).is_some() && v.0 < HALF && n as u64 > HALF);
    kani::cover!(Step::backward_checked(v, n).is_some() && v.0 >= UPPER_BASE && n as u64 > HALF);
}

#[kani::proof]
fn c03_virt_step_panicking_invariant_mpanic() {
    let v = any_virt();
    let n: usize = kani::any();
    if kani::any() {
        vp!(C03, is_canonical(Step::forward(v, n).0), "Step::forward produced a non-canonical address");
    } else {
        vp!(C03, is_canonical(Step::backward(v, n).0), "Step::backward produced a non-canonical address");
    }
    kani::cover!(true);
}

// ---------------------------------------------------------------- pointer conversions
#[kani::proof]
fn c03_virt_pointer_conversions_mpanic() {
    let x: u64 = kani::any();
    let v = VirtAddr::from_ptr(x as *const u8);
    vp!(C03, is_canonical(v.0), "from_ptr produced a non-canonical address");
    vp!(C03, v.0 == x, "from_ptr changed the pointer value");
    vp!(C03, v.as_ptr::<u8>() as u64 == x, "as_ptr changed the address");
    vp!(C03, v.as_mut_ptr::<u64>() as u64 == x, "as_mut_ptr changed the address");
    kani::cover!(x >= UPPER_BASE);
}
