//! C04 / C05 / C06 / C07 obligations on `VirtAddr`, `PhysAddr`, `align_up`, `align_down`
//! (child module of `addr`). All inputs range over the full 64-bit (or usize) domain.
use super::*;
use crate::structures::paging::page_table::PageTableLevel;
use crate::verif_oracle::*;
use core::iter::Step;

fn any_virt() -> VirtAddr {
    VirtAddr(any_canonical())
}
fn any_physaddr() -> PhysAddr {
    PhysAddr(any_phys())
}
fn any_k(max: u32) -> u32 {
    let k: u32 = kani::any();
    kani::assume(k <= max);
    k
}

// ================================================================= C04: indices are bit fields
#[kani::proof]
fn c04_virt_indices_are_bit_fields() {
    let v = any_virt();
    let a = v.0;
    vp!(C04, u64::from(v.page_offset()) == field(a, 0, 12), "page_offset is not bits 0-11");
    vp!(C04, u64::from(v.p1_index()) == field(a, 12, 9), "p1_index is not bits 12-20");
    vp!(C04, u64::from(v.p2_index()) == field(a, 21, 9), "p2_index is not bits 21-29");
    vp!(C04, u64::from(v.p3_index()) == field(a, 30, 9), "p3_index is not bits 30-38");
    vp!(C04, u64::from(v.p4_index()) == field(a, 39, 9), "p4_index is not bits 39-47");
    // all conversions of the index/offset types agree and stay in range
    vp!(C04, u16::from(v.p4_index()) < 512 && u16::from(v.p1_index()) < 512, "index out of 0..512");
    vp!(C04, u16::from(v.page_offset()) < 4096, "offset out of 0..4096");
    vp!(C04, usize::from(v.p3_index()) as u64 == u64::from(v.p3_index()), "usize/u64 conversions differ");
    vp!(C04, u32::from(v.p2_index()) as u64 == u64::from(v.p2_index()), "u32/u64 conversions differ");
    vp!(C04, u32::from(v.page_offset()) as u64 == u64::from(v.page_offset())
            && usize::from(v.page_offset()) as u64 == u64::from(v.page_offset()), "offset conversions differ");
    // the address is exactly recomposed from its fields (bijection, address -> fields direction)
    let re = (u64::from(v.p4_index()) << 39) | (u64::from(v.p3_index()) << 30) | (u64::from(v.p2_index()) << 21)
        | (u64::from(v.p1_index()) << 12) | u64::from(v.page_offset());
    vp!(C04, sign_extend48(re) == a, "fields do not recompose to the address");
    kani::cover!(u16::from(v.p4_index()) >= 256);
    kani::cover!(u16::from(v.p4_index()) == 511 && u16::from(v.p1_index()) == 511);
}

#[kani::proof]
fn c04_virt_page_table_index_by_level() {
    let v = any_virt();
    let l: u8 = kani::any();
    kani::assume(l >= 1 && l <= 4);
    let (level, want) = match l {
        1 => (PageTableLevel::One, field(v.0, 12, 9)),
        2 => (PageTableLevel::Two, field(v.0, 21, 9)),
        3 => (PageTableLevel::Three, field(v.0, 30, 9)),
        _ => (PageTableLevel::Four, field(v.0, 39, 9)),
    };
    vp!(C04, u64::from(v.page_table_index(level)) == want, "page_table_index(level) is not the level's bit field");
    let same = match l {
        1 => v.p1_index(),
        2 => v.p2_index(),
        3 => v.p3_index(),
        _ => v.p4_index(),
    };
    vp!(C04, v.page_table_index(level) == same, "by-level accessor disagrees with pN_index");
    kani::cover!(l == 4 && want >= 256);
    kani::cover!(l == 1);
}

// ================================================================= C05: stepping VirtAddr
#[kani::proof]
fn c05_virt_forward_checked_oracle() {
    let v = any_virt();
    let n: usize = kani::any();
    let got = Step::forward_checked(v, n).map(|r| r.0);
    let pos = rank(v.0) + n as u128;
    let want = if pos < SPACE { Some(unrank(pos)) } else { None };
    vp!(C05, got == want, "forward_checked differs from the contiguous-sequence oracle");
    kani::cover!(want.is_some() && v.0 < HALF && want.unwrap() >= UPPER_BASE);
    kani::cover!(want.is_none() && (n as u128) < SPACE);
    kani::cover!(n as u128 == SPACE);
    kani::cover!(want == Some(0xffff_ffff_ffff_ffff) && n > 0);
}

#[kani::proof]
fn c05_virt_backward_checked_oracle() {
    let v = any_virt();
    let n: usize = kani::any();
    let got = Step::backward_checked(v, n).map(|r| r.0);
    let want = if rank(v.0) >= n as u128 { Some(unrank(rank(v.0) - n as u128)) } else { None };
    vp!(C05, got == want, "backward_checked differs from the contiguous-sequence oracle");
    kani::cover!(want.is_some() && v.0 >= UPPER_BASE && want.unwrap() < HALF);
    kani::cover!(want.is_none() && (n as u128) < SPACE);
    kani::cover!(want == Some(0) && n > 0);
}

#[kani::proof]
fn c05_virt_steps_between_oracle() {
    let s = any_virt();
    let e = any_virt();
    let got = Step::steps_between(&s, &e);
    let want = if rank(e.0) >= rank(s.0) {
        let d = (rank(e.0) - rank(s.0)) as usize;
        (d, Some(d))
    } else {
        (0, None)
    };
    vp!(C05, got == want, "steps_between differs from the contiguous-sequence oracle");
    vp!(C05, (e.0 >= s.0) == (rank(e.0) >= rank(s.0)), "numeric order is not sequence order");
    kani::cover!(s.0 < HALF && e.0 >= UPPER_BASE);
    kani::cover!(want.1.is_none());
    kani::cover!(want.1 == Some(0xffff_ffff_ffff));
}

#[kani::proof]
fn c05_virt_step_mutual_inverse() {
    let s = any_virt();
    let n: usize = kani::any();
    if let Some(e) = Step::forward_checked(s, n) {
        vp!(C05, Step::backward_checked(e, n) == Some(s), "backward does not undo forward");
        vp!(C05, Step::steps_between(&s, &e) == (n, Some(n)), "steps_between does not measure forward");
    }
    if let Some(b) = Step::backward_checked(s, n) {
        vp!(C05, Step::forward_checked(b, n) == Some(s), "forward does not undo backward");
        vp!(C05, Step::steps_between(&b, &s) == (n, Some(n)), "steps_between does not measure backward");
    }
    let e = any_virt();
    if let (_, Some(d)) = Step::steps_between(&s, &e) {
        vp!(C05, Step::forward_checked(s, d) == Some(e), "forward(steps_between) does not reach the end");
    }
    kani::cover!(Step::forward_checked(s, n).is_some() && n > 0);
    kani::cover!(Step::backward_checked(s, n).is_some() && n > 0);
}

#[kani::proof]
fn c05_virt_u64_helpers_oracle() {
    // the crate-internal u64 variants are what Page stepping and the TLB range code build on
    let v = any_virt();
    let n: u64 = kani::any();
    let pos = rank(v.0) + n as u128;
    let want = if pos < SPACE { Some(unrank(pos)) } else { None };
    vp!(C05, VirtAddr::forward_checked_u64(v, n).map(|r| r.0) == want, "forward_checked_u64 differs from oracle");
    let wantb = if rank(v.0) >= n as u128 { Some(unrank(rank(v.0) - n as u128)) } else { None };
    vp!(C05, VirtAddr::backward_checked_u64(v, n).map(|r| r.0) == wantb, "backward_checked_u64 differs from oracle");
    let e = any_virt();
    let wants = if e.0 >= v.0 { Some((rank(e.0) - rank(v.0)) as u64) } else { None };
    vp!(C05, VirtAddr::steps_between_u64(&v, &e) == wants, "steps_between_u64 differs from oracle");
    kani::cover!(n > (1 << 48));
    kani::cover!(want.is_some() && n > HALF);
}

// ================================================================= C06: alignment is exact
#[kani::proof]
fn c06_align_down_exact() {
    let a: u64 = kani::any();
    let k = any_k(63);
    let r = align_down(a, 1u64 << k);
    vp!(C06, (r >> k) << k == r, "align_down result is not a multiple");
    vp!(C06, r <= a, "align_down result is above the input");
    vp!(C06, (a - r) >> k == 0, "align_down result is not the greatest multiple");
    kani::cover!(k == 63 && a > (1 << 63));
    kani::cover!(k == 0);
}

#[kani::proof]
fn c06_align_up_exact() {
    let a: u64 = kani::any();
    let k = any_k(63);
    let m = 1u128 << k;
    let want = ((a as u128 + m - 1) >> k) << k; // least multiple >= a, in 128 bits
    kani::assume(want < (1u128 << 64));
    let r = align_up(a, 1u64 << k);
    vp!(C06, r as u128 == want, "align_up is not the least multiple >= input");
    vp!(C06, r >= a && (r - a) >> k == 0, "align_up overshoots");
    kani::cover!(k == 63 && a > 0);
    kani::cover!(r != a);
    kani::cover!(r == a && k > 0);
}

#[kani::proof]
fn c06_align_up_overflow_xpanic() {
    let a: u64 = kani::any();
    let k = any_k(63);
    let m = 1u128 << k;
    kani::assume(((a as u128 + m - 1) >> k) << k >= (1u128 << 64));
    kani::cover!(true);
    let _ = align_up(a, 1u64 << k);
    vp!(C06, false, "align_up returned although the rounded value overflows 2^64");
}

#[kani::proof]
fn c06_align_not_pow2_xpanic() {
    let a: u64 = kani::any();
    let al: u64 = kani::any();
    kani::assume(al.count_ones() != 1);
    kani::cover!(al == 0);
    kani::cover!(al == 3);
    if kani::any() {
        let _ = align_up(a, al);
    } else {
        let _ = align_down(a, al);
    }
    vp!(C06, false, "align_up/align_down accepted a non-power-of-two alignment");
}

#[kani::proof]
fn c06_virt_align_down_exact() {
    let v = any_virt();
    let k = any_k(47);
    let r = v.align_down(1u64 << k);
    vp!(C06, is_canonical(r.0), "VirtAddr::align_down result not canonical");
    // greatest canonical multiple <= v: in sequence positions, multiples of 2^k (k<=47) are the
    // positions divisible by 2^k because both half boundaries are multiples of 2^47
    let m = 1u128 << k;
    vp!(C06, rank(r.0) == (rank(v.0) >> k) << k, "VirtAddr::align_down is not the greatest canonical multiple");
    vp!(C06, (r.0 >> k) << k == r.0 && r.0 <= v.0, "VirtAddr::align_down not a multiple below the input");
    vp!(C06, v.is_aligned(1u64 << k) == ((v.0 >> k) << k == v.0), "VirtAddr::is_aligned wrong");
    kani::cover!(k == 47 && v.0 >= UPPER_BASE);
    kani::cover!(v.is_aligned(1u64 << k) && k > 12);
}

#[kani::proof]
fn c06_virt_align_up_exact() {
    let v = any_virt();
    let k = any_k(47);
    let m = 1u128 << k;
    let want = ((rank(v.0) + m - 1) >> k) << k;
    kani::assume(want < SPACE);
    let r = v.align_up(1u64 << k);
    vp!(C06, is_canonical(r.0), "VirtAddr::align_up result not canonical");
    vp!(C06, rank(r.0) == want, "VirtAddr::align_up is not the least canonical multiple >= input");
    vp!(C06, (r.0 >> k) << k == r.0 && r.0 >= v.0, "VirtAddr::align_up not a multiple above the input");
    kani::cover!(v.0 < HALF && r.0 >= UPPER_BASE);
    kani::cover!(k == 47);
}

#[kani::proof]
fn c06_virt_align_up_overflow_xpanic() {
    let v = any_virt();
    let k = any_k(47);
    let m = 1u128 << k;
    kani::assume(((rank(v.0) + m - 1) >> k) << k >= SPACE);
    kani::cover!(true);
    let _ = v.align_up(1u64 << k);
    vp!(C06, false, "VirtAddr::align_up returned although the rounded value overflows");
}

#[kani::proof]
fn c06_virt_align_not_pow2_xpanic() {
    let v = any_virt();
    let al: u64 = kani::any();
    kani::assume(al.count_ones() != 1);
    kani::cover!(true);
    match kani::any::<u8>() {
        0 => {
            let _ = v.align_up(al);
        }
        1 => {
            let _ = v.align_down(al);
        }
        _ => {
            let _ = v.is_aligned(al);
        }
    }
    vp!(C06, false, "VirtAddr alignment accepted a non-power-of-two alignment");
}

#[kani::proof]
fn c06_phys_align_exact() {
    let p = any_physaddr();
    let k = any_k(63);
    let m = 1u128 << k;
    let d = p.align_down(1u64 << k);
    vp!(C06, d.0 as u128 == (p.0 as u128 >> k) << k, "PhysAddr::align_down is not the greatest multiple <= input");
    vp!(C06, p.is_aligned(1u64 << k) == ((p.0 as u128 >> k) << k == p.0 as u128), "PhysAddr::is_aligned wrong");
    let want = ((p.0 as u128 + m - 1) >> k) << k;
    if want < (1u128 << 52) {
        let u = p.align_up(1u64 << k);
        vp!(C06, u.0 as u128 == want, "PhysAddr::align_up is not the least multiple >= input");
        kani::cover!(u.0 != p.0);
    }
    kani::cover!(k > 52);
    kani::cover!(want >= (1u128 << 52));
}

#[kani::proof]
fn c06_phys_align_up_overflow_xpanic() {
    let p = any_physaddr();
    let k = any_k(63);
    let m = 1u128 << k;
    kani::assume(((p.0 as u128 + m - 1) >> k) << k >= (1u128 << 52));
    kani::cover!(k < 52);
    kani::cover!(k == 63);
    let _ = p.align_up(1u64 << k);
    vp!(C06, false, "PhysAddr::align_up returned although the rounded value needs more than 52 bits");
}

#[kani::proof]
fn c06_phys_align_not_pow2_xpanic() {
    let p = any_physaddr();
    let al: u64 = kani::any();
    kani::assume(al.count_ones() != 1);
    kani::cover!(true);
    match kani::any::<u8>() {
        0 => {
            let _ = p.align_up(al);
        }
        1 => {
            let _ = p.align_down(al);
        }
        _ => {
            let _ = p.is_aligned(al);
        }
    }
    vp!(C06, false, "PhysAddr alignment accepted a non-power-of-two alignment");
}

// ================================================================= C07: exact-or-panic (debug profile)
#[kani::proof]
fn c07_virt_add_sub_exact_mpanic() {
    let v = any_virt();
    let n: u64 = kani::any();
    match kani::any::<u8>() {
        0 => {
            let r = v + n;
            vp!(C07, r.0 as u128 == v.0 as u128 + n as u128, "VirtAddr + u64 is not exact");
            kani::cover!(n > 0);
        }
        1 => {
            let r = v - n;
            vp!(C07, r.0 as i128 == v.0 as i128 - n as i128, "VirtAddr - u64 is not exact");
            kani::cover!(n > 0);
        }
        2 => {
            let mut r = v;
            r += n;
            vp!(C07, r.0 as u128 == v.0 as u128 + n as u128, "VirtAddr += u64 is not exact");
        }
        3 => {
            let mut r = v;
            r -= n;
            vp!(C07, r.0 as i128 == v.0 as i128 - n as i128, "VirtAddr -= u64 is not exact");
        }
        _ => {
            let w = any_virt();
            let d = v - w;
            vp!(C07, d as i128 == v.0 as i128 - w.0 as i128, "VirtAddr - VirtAddr is not exact");
            kani::cover!(d > 0);
        }
    }
}

#[kani::proof]
fn c07_phys_add_sub_exact_mpanic() {
    let p = any_physaddr();
    let n: u64 = kani::any();
    match kani::any::<u8>() {
        0 => {
            let r = p + n;
            vp!(C07, r.0 as u128 == p.0 as u128 + n as u128, "PhysAddr + u64 is not exact");
            kani::cover!(n > 0);
        }
        1 => {
            let r = p - n;
            vp!(C07, r.0 as i128 == p.0 as i128 - n as i128, "PhysAddr - u64 is not exact");
            kani::cover!(n > 0);
        }
        2 => {
            let mut r = p;
            r += n;
            vp!(C07, r.0 as u128 == p.0 as u128 + n as u128, "PhysAddr += u64 is not exact");
        }
        3 => {
            let mut r = p;
            r -= n;
            vp!(C07, r.0 as i128 == p.0 as i128 - n as i128, "PhysAddr -= u64 is not exact");
        }
        _ => {
            let q = any_physaddr();
            let d = p - q;
            vp!(C07, d as i128 == p.0 as i128 - q.0 as i128, "PhysAddr - PhysAddr is not exact");
            kani::cover!(d > 0);
        }
    }
}
