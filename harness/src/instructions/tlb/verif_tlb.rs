//! C11 -- standalone flush operations and the broadcast (INVLPGB) builder over the ISA model
//! (child module of `tlb`: builds `Invlpgb` through its private fields, `Invlpgb::new()` needs CPUID).
use super::*;
use crate::structures::paging::mapper::{MapperFlush, MapperFlushAll};
use crate::structures::paging::Size1GiB;
use crate::verif_isa as isa;
use crate::verif_isa::{havoc, m};
use crate::verif_oracle::*;

fn page_at<S: PageSize>(a: u64) -> Page<S> {
    Page::containing_address(unsafe { VirtAddr::new_unsafe(a) })
}

// ================================================================= invlpg / mov cr3 / invpcid
#[kani::proof]
fn c11_flush_one_address() {
    let before = havoc();
    let a = any_canonical();
    flush(unsafe { VirtAddr::new_unsafe(a) });
    vp!(C11, m().nlog == 1 && m().log[0].kind == isa::EV_INVLPG && m().log[0].a == a, "flush(addr) is not exactly one invlpg of that address");
    vp!(C11, m().arch_eq(&before) && m().clean(), "flush(addr) changed machine state");
    vp!(C11, !m().opt_fault, "a TLB-invalidating asm block is marked nomem / readonly / pure: the compiler may move page-table stores across the flush");
    kani::cover!(a >= UPPER_BASE);
}

#[kani::proof]
fn c11_flush_token_names_its_page() {
    let before = havoc();
    let a = any_canonical();
    match kani::any::<u8>() % 3 {
        0 => {
            let p = page_at::<Size4KiB>(a);
            let t = MapperFlush::new(p);
            vp!(C11, t.page() == p, "MapperFlush::page is not the page it was created for");
            t.flush();
            vp!(C11, m().nlog == 1 && m().log[0].kind == isa::EV_INVLPG && m().log[0].a == p.start_address().as_u64(), "flushing a 4KiB token is not one invlpg of the page's start address");
        }
        1 => {
            let p = page_at::<Size2MiB>(a);
            let t = MapperFlush::new(p);
            vp!(C11, t.page() == p, "MapperFlush::page is not the page it was created for");
            t.flush();
            vp!(C11, m().nlog == 1 && m().log[0].kind == isa::EV_INVLPG && m().log[0].a == p.start_address().as_u64(), "flushing a 2MiB token is not one invlpg of the page's start address");
        }
        _ => {
            let p = page_at::<Size1GiB>(a);
            let t = MapperFlush::new(p);
            t.flush();
            vp!(C11, m().nlog == 1 && m().log[0].kind == isa::EV_INVLPG && m().log[0].a == p.start_address().as_u64(), "flushing a 1GiB token is not one invlpg of the page's start address");
        }
    }
    vp!(C11, m().arch_eq(&before), "flushing a token changed machine state");
    // ignore() executes nothing
    m().nlog = 0;
    MapperFlush::new(page_at::<Size4KiB>(a)).ignore();
    MapperFlushAll::new().ignore();
    vp!(C11, m().nlog == 0, "ignore() executed an instruction");
    kani::cover!(a >= UPPER_BASE);
}

/// flush_all / MapperFlushAll::flush_all reload CR3 with its current value -- for every CR3 content
/// that is architecturally possible (bits 52-62 reserved-zero, bit 63 reads as zero).
#[kani::proof]
fn c11_flush_all_reloads_cr3() {
    let before = havoc();
    kani::assume(before.cr[3] >> 52 == 0);
    if kani::any() {
        flush_all();
    } else {
        MapperFlushAll::new().flush_all();
    }
    kani::cover!(before.cr[3] & 0xfe7 != 0);
    kani::cover!(before.cr[3] & 0x18 != 0);
    vp!(C11, m().count(isa::EV_MOV_TO_CR) == 1, "flush_all is not exactly one mov to cr3");
    let e = m().last();
    vp!(C11, e.kind == isa::EV_MOV_TO_CR && e.a == 3, "flush_all does not end with a write of CR3");
    vp!(C11, e.b == before.cr[3], "flush_all reloads CR3 with a different value than it holds (PCID / low bits dropped)");
    vp!(C11, m().arch_eq(&before) && m().clean(), "flush_all changed machine state");
    vp!(C11, !m().opt_fault, "a TLB-invalidating asm block is marked nomem / readonly / pure: the compiler may move page-table stores across the flush");
}

#[kani::proof]
fn c11_flush_pcid_descriptor() {
    let before = havoc();
    let p: u16 = kani::any();
    kani::assume(p < 4096);
    let pcid = Pcid::new(p).unwrap();
    let a = any_canonical();
    let k: u8 = kani::any::<u8>() % 4;
    let cmd = match k {
        0 => InvPcidCommand::Address(unsafe { VirtAddr::new_unsafe(a) }, pcid),
        1 => InvPcidCommand::Single(pcid),
        2 => InvPcidCommand::All,
        _ => InvPcidCommand::AllExceptGlobal,
    };
    unsafe { flush_pcid(cmd) };
    let e = m().log[0];
    vp!(C11, m().nlog == 1 && e.kind == isa::EV_INVPCID, "flush_pcid is not exactly one invpcid");
    // SDM vol.2A INVPCID: type 0 individual address, 1 single context, 2 all incl. global, 3 all except global;
    // descriptor: PCID in bits 0-11 of the first quadword (rest zero), linear address in the second
    vp!(C11, e.a == k as u64, "invpcid type register does not match the requested kind");
    match k {
        0 => vp!(C11, e.b == p as u64 && e.c == a, "invpcid descriptor is not (pcid, address) for the address kind"),
        1 => vp!(C11, e.b == p as u64 && e.c == 0, "invpcid descriptor is not (pcid, 0) for the single-context kind"),
        _ => vp!(C11, e.b == 0 && e.c == 0, "invpcid descriptor is not zero for the all-context kinds"),
    }
    vp!(C11, m().arch_eq(&before) && m().clean(), "flush_pcid changed machine state");
    vp!(C11, !m().opt_fault, "a TLB-invalidating asm block is marked nomem / readonly / pure: the compiler may move page-table stores across the flush");
    kani::cover!(k == 0 && p == 4095 && a >= UPPER_BASE);
}

// ================================================================= broadcast builder
static mut CUR: u128 = 0; // position (in pages of the range's size) where the next request must start
static mut END: u128 = 0; // position one past the last page of the range
static mut SZ: u64 = 4096;
static mut COUNT_MAX: u16 = 0;
static mut WANT_RAX_LOW: u64 = 0; // expected rax[5:1]
static mut WANT_EDX: u32 = 0;

/// Checks one INVLPGB request at the moment it executes (APM vol.3 INVLPGB; a request with count c is
/// read as the crate models it: it covers max(c, 1) pages starting at rax[63:12]).
fn on_request(_k: usize, rax: u64, ecx: u32, edx: u32) {
    unsafe {
        let sz = SZ as u128;
        let half = HALF as u128 / sz;
        vp!(C11, rax & 1 == 1, "range request without the valid-VA bit");
        let va = rax & !0xfff;
        vp!(C11, is_canonical(va) && va % SZ == 0, "request address is not a canonical page start");
        vp!(C11, rank(va) / sz == CUR, "request does not start where the previous one ended (pages skipped or repeated)");
        let c = (ecx & 0xffff) as u128;
        vp!(C11, c <= COUNT_MAX as u128, "request count exceeds the processor's maximum");
        vp!(C11, ecx >> 16 & 0x7fff == 0, "reserved ECX bits set");
        vp!(C11, (ecx >> 31 == 1) == (SZ == 0x20_0000), "2MiB-stride bit does not match the page size");
        let span = if c == 0 { 1 } else { c };
        vp!(C11, CUR + span <= END, "request extends beyond the end of the range");
        vp!(C11, !(CUR < half && CUR + span > half), "request extends across the non-canonical gap");
        vp!(C11, rax & 0x3e == WANT_RAX_LOW, "PCID/ASID/global/final/nested request bits differ from what was asked");
        vp!(C11, rax & 0xfc0 == 0, "reserved RAX bits set");
        vp!(C11, edx == WANT_EDX, "EDX (ASID / PCID) differs from what was asked");
        CUR += span;
    }
}

fn any_invlpgb() -> Invlpgb {
    Invlpgb { invlpgb_count_max: kani::any(), tlb_flush_nested: kani::any(), nasid: kani::any() }
}

macro_rules! broadcast_harness {
    ($name:ident, $S:ty, $LIMIT:expr) => {
        /// First 3 requests of EVERY range (then the path is cut): since the loop state is only
        /// (start, end), every later iteration is the first iteration of another admissible range.
        #[kani::proof]
        #[kani::unwind(70)]
        fn $name() {
            let before = havoc();
            let inv = any_invlpgb();
            let (s, e) = (any_canonical(), any_canonical());
            kani::assume(s % <$S>::SIZE == 0 && e % <$S>::SIZE == 0);
            let range = PageRange { start: page_at::<$S>(s), end: page_at::<$S>(e) };
            let mut b = inv.build().pages(range);
            let (mut want_rax, mut want_edx) = (0u64, 0u32);
            if kani::any() {
                let p: u16 = kani::any();
                kani::assume(p < 4096);
                unsafe { b.pcid(Pcid::new(p).unwrap()) };
                want_rax |= 1 << 1;
                want_edx |= (p as u32) << 16;
            }
            if kani::any() {
                let a: u16 = kani::any();
                match unsafe { b.asid(a) } {
                    Ok(_) => {
                        vp!(C11, (a as u32) < inv.nasid, "asid accepted although not below the processor's ASID count");
                        want_rax |= 1 << 2;
                        want_edx |= a as u32;
                    }
                    Err(_) => vp!(C11, (a as u32) >= inv.nasid, "valid asid rejected"),
                }
            }
            if kani::any() {
                b.include_global();
                want_rax |= 1 << 3;
            }
            if kani::any() {
                b.final_translation_only();
                want_rax |= 1 << 4;
            }
            let b = if inv.tlb_flush_nested && kani::any() {
                want_rax |= 1 << 5;
                b.include_nested_translations()
            } else {
                b
            };
            unsafe {
                SZ = <$S>::SIZE;
                CUR = rank(s) / SZ as u128;
                END = if e > s { rank(e) / SZ as u128 } else { CUR };
                COUNT_MAX = inv.invlpgb_count_max;
                WANT_RAX_LOW = want_rax;
                WANT_EDX = want_edx;
            }
            m().on_invlpgb = Some(on_request);
            m().invlpgb_limit = $LIMIT;
            b.flush();
            // reached only by ranges that need at most 3 requests: they are covered completely
            vp!(C11, unsafe { CUR == END }, "the requests do not cover every page of the range exactly");
            vp!(C11, (m().n_invlpgb == 0) == (e <= s), "an empty range issued a request / a non-empty one issued none");
            vp!(C11, m().arch_eq(&before) && m().clean(), "broadcast flush changed machine state");
            vp!(C11, !m().opt_fault, "a TLB-invalidating asm block is marked nomem / readonly / pure: the compiler may move page-table stores across the flush");
            kani::cover!(m().n_invlpgb == $LIMIT);
            kani::cover!(m().n_invlpgb == 2 && s < HALF && e >= UPPER_BASE);
            kani::cover!(m().n_invlpgb == 1 && inv.invlpgb_count_max == 0);
            kani::cover!(e <= s);
            kani::cover!(want_rax == 0x3e);
        }
    };
}
broadcast_harness!(c11_broadcast_range_4k, Size4KiB, 3);
broadcast_harness!(c11_broadcast_range_2m, Size2MiB, 3);
broadcast_harness!(c11t_broadcast_range_4k_6req, Size4KiB, 6);
broadcast_harness!(c11t_broadcast_range_2m_6req, Size2MiB, 6);

#[kani::proof]
fn c11_broadcast_without_range() {
    let before = havoc();
    let inv = any_invlpgb();
    let mut b = inv.build();
    let g: bool = kani::any();
    if g {
        b.include_global();
    }
    b.flush();
    let e = m().log[0];
    vp!(C11, m().n_invlpgb == 1 && e.kind == isa::EV_INVLPGB, "flush without a range is not exactly one invlpgb");
    vp!(C11, e.a == (g as u64) << 3 && e.b == 0 && e.c == 0, "flush without a range carries an address, count or other bits");
    inv.tlbsync();
    vp!(C11, m().last().kind == isa::EV_TLBSYNC, "tlbsync() is not tlbsync");
    vp!(C11, inv.invlpgb_count_max() == inv.invlpgb_count_max && inv.nasid() == inv.nasid && inv.tlb_flush_nested() == inv.tlb_flush_nested, "Invlpgb getters");
    vp!(C11, m().arch_eq(&before) && m().clean(), "broadcast flush changed machine state");
    vp!(C11, !m().opt_fault, "a TLB-invalidating asm block is marked nomem / readonly / pure: the compiler may move page-table stores across the flush");
}

#[kani::proof]
fn c11_nested_unsupported_xpanic() {
    let mut inv = any_invlpgb();
    inv.tlb_flush_nested = false;
    kani::cover!(true);
    let _ = inv.build().include_nested_translations();
    vp!(C11, false, "include_nested_translations accepted although the processor does not support it");
}
