//! C17 (interrupt flag) and C18 (ports) over the ISA model (child module of `instructions`).
use super::interrupts;
use super::port::{Port, PortGeneric, PortReadOnly, PortWriteOnly, ReadOnlyAccess, ReadWriteAccess, WriteOnlyAccess};
use crate::verif_isa::*;
use crate::verif_oracle::*;

const IF: u64 = 1 << 9; // SDM vol.1 3.4.3.3: RFLAGS.IF is bit 9

// ================================================================= C18: ports
macro_rules! port_harness {
    ($name:ident, $T:ty, $W:expr) => {
        #[kani::proof]
        fn $name() {
            let before = havoc();
            let p: u16 = kani::any();
            // ---- read through a read-write port and through a read-only port
            let v: $T = if kani::any() {
                let mut port = Port::<$T>::new(p);
                unsafe { port.read() }
            } else {
                let mut port = PortReadOnly::<$T>::new(p);
                unsafe { port.read() }
            };
            let mm = m();
            vp!(C18, mm.nlog == 1 && mm.log[0].kind == EV_IN, "a port read is not exactly one `in` instruction");
            vp!(C18, mm.log[0].a == $W, "port read has the wrong operand width");
            vp!(C18, mm.log[0].b == p as u64, "port read used a different port number (DX)");
            vp!(C18, v as u64 == (before.port_in as u64) % (1u64 << $W), "port read did not return exactly the value the device supplied");
            vp!(C18, mm.log[0].opts & OPT_PURE == 0, "port read asm block is marked `pure` (a device read has side effects)");
            vp!(C18, mm.arch_eq(&before) && mm.clean(), "port read changed other machine state");
            // ---- write through a read-write port and through a write-only port
            let w: $T = kani::any();
            mm.nlog = 0;
            if kani::any() {
                let mut port = Port::<$T>::new(p);
                unsafe { port.write(w) }
            } else {
                let mut port = PortWriteOnly::<$T>::new(p);
                unsafe { port.write(w) }
            }
            vp!(C18, mm.nlog == 1 && mm.log[0].kind == EV_OUT, "a port write is not exactly one `out` instruction");
            vp!(C18, mm.log[0].a == $W, "port write has the wrong operand width");
            vp!(C18, mm.log[0].b == p as u64, "port write used a different port number (DX)");
            vp!(C18, mm.log[0].c == w as u64, "port write did not transfer exactly the given value");
            vp!(C18, mm.arch_eq(&before) && mm.clean(), "port write changed other machine state");
            kani::cover!(p == 0xffff);
            kani::cover!(v as u64 == (1u64 << $W) - 1);
        }
    };
}
port_harness!(c18_port_u8, u8, 8);
port_harness!(c18_port_u16, u16, 16);
port_harness!(c18_port_u32, u32, 32);

#[kani::proof]
fn c18_port_eq_clone() {
    let (p, q): (u16, u16) = (kani::any(), kani::any());
    let a = Port::<u8>::new(p);
    let b = Port::<u8>::new(q);
    vp!(C18, (a == b) == (p == q), "Port equality is not port-number equality");
    let c = PortReadOnly::<u16>::new(p);
    let d = PortReadOnly::<u16>::new(q);
    vp!(C18, (c == d) == (p == q), "PortReadOnly equality is not port-number equality");
    let e = PortWriteOnly::<u32>::new(p);
    let f = PortWriteOnly::<u32>::new(q);
    vp!(C18, (e == f) == (p == q), "PortWriteOnly equality is not port-number equality");
    // clones refer to the same port: observed through the instruction they execute
    let _ = havoc();
    let mut g = e.clone();
    unsafe { g.write(1) };
    vp!(C18, m().log[0].b == p as u64 && m().log[0].kind == EV_OUT && m().log[0].a == 32, "clone of a port accesses a different port");
    vp!(C18, a.clone() == a && c.clone() == c, "clone is not equal to the original");
    kani::cover!(p == q);
    kani::cover!(p != q);
}

// ================================================================= C17: interrupt flag
#[kani::proof]
fn c17_enable_disable_are_enabled() {
    let before = havoc();
    let e = interrupts::are_enabled();
    vp!(C17, e == (before.rflags & IF != 0), "are_enabled does not report RFLAGS.IF");
    vp!(C17, m().arch_eq(&before) && m().clean(), "are_enabled changed machine state");
    vp!(C17, m().count(EV_PUSHFQ) == 1 && m().log[0].opts & OPT_PURE == 0, "flag read is not one non-pure pushfq");
    m().nlog = 0;
    if kani::any() {
        interrupts::enable();
        let mut want = before;
        want.rflags = before.rflags | IF;
        vp!(C17, m().arch_eq(&want), "enable did not set exactly IF");
        vp!(C17, m().nlog == 1 && m().log[0].kind == EV_STI, "enable is not exactly one sti");
        vp!(C17, m().log[0].opts & (OPT_NOMEM | OPT_PURE) == 0, "sti block lost its compiler memory barrier (nomem/pure)");
    } else {
        interrupts::disable();
        let mut want = before;
        want.rflags = before.rflags & !IF;
        vp!(C17, m().arch_eq(&want), "disable did not clear exactly IF");
        vp!(C17, m().nlog == 1 && m().log[0].kind == EV_CLI, "disable is not exactly one cli");
        vp!(C17, m().log[0].opts & (OPT_NOMEM | OPT_PURE) == 0, "cli block lost its compiler memory barrier (nomem/pure)");
    }
    kani::cover!(before.rflags & IF != 0);
    kani::cover!(before.rflags & IF == 0);
}

static mut CALLS: [u32; 3] = [0; 3];
static mut SAW_IF_SET: bool = false;
fn enter(level: usize) {
    unsafe {
        CALLS[level] += 1;
        if m().rflags & IF != 0 {
            SAW_IF_SET = true;
        }
    }
}

/// Every nesting of depth <= 3 (symbolic choice whether each level nests), both initial IF values.
#[kani::proof]
fn c17_without_interrupts_nesting() {
    let before = havoc();
    let (n1, n2): (bool, bool) = (kani::any(), kani::any());
    let (v0, v1, v2): (u64, u64, u64) = (kani::any(), kani::any(), kani::any());
    let mut got1 = None;
    let mut got2 = None;
    let r0 = interrupts::without_interrupts(|| {
        enter(0);
        if n1 {
            got1 = Some(interrupts::without_interrupts(|| {
                enter(1);
                if n2 {
                    got2 = Some(interrupts::without_interrupts(|| {
                        enter(2);
                        v2
                    }));
                    // after an inner call the flag must still be clear for the rest of this closure
                    enter(1);
                }
                v1
            }));
            enter(0);
        }
        v0
    });
    let mm = m();
    vp!(C17, unsafe { !SAW_IF_SET }, "a closure ran (or continued) with the interrupt flag set");
    vp!(C17, r0 == v0 && got1 == (if n1 { Some(v1) } else { None }) && got2 == (if n1 && n2 { Some(v2) } else { None }), "closure result not returned unchanged");
    let c = unsafe { CALLS };
    vp!(C17, c[0] == 1 + n1 as u32 && c[1] == if n1 { 1 + n2 as u32 } else { 0 } && c[2] == (n1 && n2) as u32, "a closure did not run exactly once");
    vp!(C17, mm.rflags == before.rflags, "interrupt flag (or another flag) not restored to its value before the call");
    vp!(C17, mm.arch_eq(&before) && mm.clean(), "without_interrupts changed other machine state");
    if before.rflags & IF == 0 {
        vp!(C17, mm.count(EV_STI) == 0, "sti executed although interrupts were disabled before the call");
        vp!(C17, mm.count(EV_CLI) == 0, "cli executed although interrupts were already disabled");
    } else {
        vp!(C17, mm.count(EV_STI) == 1 && mm.count(EV_CLI) == 1, "not exactly one cli/sti pair for the outermost call");
        vp!(C17, mm.last().kind == EV_STI, "interrupts re-enabled before the outermost closure finished");
    }
    kani::cover!(n1 && n2 && before.rflags & IF != 0);
    kani::cover!(n1 && n2 && before.rflags & IF == 0);
    kani::cover!(!n1);
}

/// thorough tier: one more nesting level (depth 4), every branching shape
#[kani::proof]
fn c17t_without_interrupts_nesting_depth4() {
    let before = havoc();
    let (n1, n2, n3): (bool, bool, bool) = (kani::any(), kani::any(), kani::any());
    let v: [u64; 4] = kani::any();
    let mut calls = [0u32; 4];
    let mut saw_set = false;
    let mut probe = |lvl: usize, calls: &mut [u32; 4], saw: &mut bool| {
        calls[lvl] += 1;
        if m().rflags & IF != 0 {
            *saw = true;
        }
    };
    let r = interrupts::without_interrupts(|| {
        probe(0, &mut calls, &mut saw_set);
        if n1 {
            let r1 = interrupts::without_interrupts(|| {
                probe(1, &mut calls, &mut saw_set);
                if n2 {
                    let r2 = interrupts::without_interrupts(|| {
                        probe(2, &mut calls, &mut saw_set);
                        if n3 {
                            let r3 = interrupts::without_interrupts(|| {
                                probe(3, &mut calls, &mut saw_set);
                                v[3]
                            });
                            vp!(C17, r3 == v[3], "closure result not returned unchanged (depth 4)");
                            probe(2, &mut calls, &mut saw_set);
                        }
                        v[2]
                    });
                    vp!(C17, r2 == v[2], "closure result not returned unchanged (depth 3)");
                    probe(1, &mut calls, &mut saw_set);
                }
                v[1]
            });
            vp!(C17, r1 == v[1], "closure result not returned unchanged (depth 2)");
            probe(0, &mut calls, &mut saw_set);
        }
        v[0]
    });
    vp!(C17, r == v[0], "closure result not returned unchanged");
    vp!(C17, !saw_set, "a closure ran (or continued) with the interrupt flag set");
    vp!(C17, m().rflags == before.rflags && m().arch_eq(&before) && m().clean(), "interrupt flag not restored / other machine state changed");
    vp!(C17, calls[3] == (n1 && n2 && n3) as u32, "innermost closure did not run exactly once");
    if before.rflags & IF == 0 {
        vp!(C17, m().count(EV_STI) == 0 && m().count(EV_CLI) == 0, "cli/sti executed although interrupts were disabled before the call");
    }
    kani::cover!(n1 && n2 && n3 && before.rflags & IF != 0);
}

#[kani::proof]
fn c17_enable_and_hlt_atomic() {
    let before = havoc();
    interrupts::enable_and_hlt();
    let mm = m();
    vp!(C17, mm.nlog == 2 && mm.log[0].kind == EV_STI && mm.log[1].kind == EV_HLT, "enable_and_hlt is not exactly `sti` immediately followed by `hlt`");
    vp!(C17, mm.log[0].block == mm.log[1].block, "sti and hlt are not in one asm block (an interrupt window can open between them)");
    let mut want = before;
    want.rflags = before.rflags | IF;
    vp!(C17, mm.arch_eq(&want) && mm.clean(), "enable_and_hlt changed other machine state");
    kani::cover!(before.rflags & IF == 0);
}

#[kani::proof]
fn c17_misc_instructions() {
    let before = havoc();
    match kani::any::<u8>() % 5 {
        0 => {
            super::hlt();
            vp!(C17, m().nlog == 1 && m().log[0].kind == EV_HLT, "hlt() is not one hlt");
        }
        1 => {
            super::nop();
            vp!(C17, m().nlog == 1 && m().log[0].kind == EV_NOP, "nop() is not one nop");
        }
        2 => {
            super::bochs_breakpoint();
            vp!(C17, m().nlog == 1 && m().log[0].kind == EV_XCHG_BX, "bochs_breakpoint() is not xchg bx,bx");
        }
        3 => {
            interrupts::int3();
            vp!(C17, m().nlog == 1 && m().log[0].kind == EV_INT3, "int3() is not one int3");
        }
        _ => {
            unsafe { interrupts::software_interrupt::<0x80>() };
            vp!(C17, m().nlog == 1 && m().log[0].kind == EV_INT && m().log[0].a == 0x80, "software_interrupt::<N> is not `int N`");
        }
    }
    vp!(C17, m().arch_eq(&before), "instruction wrapper changed machine state");
    kani::cover!(true);
}
