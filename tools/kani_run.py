#!/usr/bin/env python3
"""Engine K driver: overlay -> cargo kani -> classify every CBMC check -> replay -> evidence.

Exit codes of a check:  0 = property held on everything explored
                        1 = violation (a `VIOLATION property=<id> replay=<path>` line is printed)
                        2 = inconclusive (machinery problem, timeout, OOM, vacuous harness, unwinding
                            assertion, counterexample that does not replay) -- never a pass
"""
import json
import os
import re
import shutil
import subprocess
import sys
import time

sys.path.insert(0, os.path.dirname(os.path.abspath(__file__)))
import overlay  # noqa: E402

VERIF = overlay.VERIF
ENV = dict(os.environ, CARGO_NET_OFFLINE="true", CARGO_TERM_COLOR="never")
ENV.pop("RUSTUP_TOOLCHAIN", None)


def _install_cbmc_shim():
    """kani-driver keeps every CBMC message of every harness in memory until it exits; the clean_up family
    (514-fold unrolled iterator chains, millions of "Unwinding loop .. iteration N" messages) drove it to 31 GB.
    The `cargo kani` proxy puts <KANI_HOME>/kani-<ver>/bin in front of PATH, so the filter is installed by pointing
    KANI_HOME at a scratch directory of symlinks into the real bundle in which only `bin/cbmc` is replaced by
    tools/bin/cbmc (= real cbmc | tools/src/cbmc_filter.c).  Nothing outside the scratch directory is modified;
    if anything here fails the real bundle is used unchanged."""
    import atexit, glob, shutil as _sh
    if os.environ.get("VERIF_NO_CBMC_SHIM"):
        return
    try:
        bundles = sorted(glob.glob(os.path.join(os.environ.get("KANI_HOME") or os.path.expanduser("~/.kani"), "kani-*")))
        if not bundles:
            return
        bundle = bundles[-1]
        real = os.path.join(bundle, "bin", "cbmc")
        filt = os.path.join(VERIF, "tools", "bin", "cbmc_filter")
        src = os.path.join(VERIF, "tools", "src", "cbmc_filter.c")
        if not os.path.exists(filt) or os.path.getmtime(filt) < os.path.getmtime(src):
            for cc in ("gcc", "cc", "clang"):
                if _sh.which(cc) and subprocess.run([cc, "-O2", "-o", filt, src], capture_output=True).returncode == 0:
                    break
        if not (os.path.exists(filt) and os.path.exists(real)):
            return
        home = os.path.join(overlay.scratch_root(), f"x86_64-verif.kanihome.{os.getpid()}")
        dst = os.path.join(home, os.path.basename(bundle))
        os.makedirs(os.path.join(dst, "bin"))
        atexit.register(lambda: _sh.rmtree(home, ignore_errors=True))
        for e in os.listdir(bundle):
            if e != "bin":
                os.symlink(os.path.join(bundle, e), os.path.join(dst, e))
        for e in os.listdir(os.path.join(bundle, "bin")):
            if e != "cbmc":
                os.symlink(os.path.join(bundle, "bin", e), os.path.join(dst, "bin", e))
        _sh.copy(os.path.join(VERIF, "tools", "bin", "cbmc"), os.path.join(dst, "bin", "cbmc"))
        os.chmod(os.path.join(dst, "bin", "cbmc"), 0o755)
        ENV.update(KANI_HOME=home, VERIF_REAL_CBMC=real, VERIF_CBMC_FILTER=filt)
    except Exception as e:  # noqa
        print(f"note: CBMC output filter not installed ({e})", file=sys.stderr, flush=True)


_install_cbmc_shim()
import signal


def run_group(cmd, cwd, env, timeout, capture=True, stdout=None):
    """subprocess.run with the child in its own process group, killed as a group on timeout
    (cargo-kani's cbmc grandchildren would otherwise survive)."""
    p = subprocess.Popen(cmd, cwd=cwd, env=env, text=True, start_new_session=True,
                         stdout=(subprocess.PIPE if capture else stdout), stderr=(subprocess.PIPE if capture else subprocess.STDOUT))
    try:
        out, err = p.communicate(timeout=timeout)
        return p.returncode, (out or "") + (err or "")
    except subprocess.TimeoutExpired:
        try:
            os.killpg(p.pid, signal.SIGKILL)
        except ProcessLookupError:
            pass
        p.wait()
        raise


def log(*a):
    print(*a, flush=True)


def native_replayable(name):
    """Harnesses whose environment exists only inside CBMC (Kani stubs for pointer/address modelling,
    calls through x86-interrupt function pointers) carry `_nr` in their name: their counterexamples
    cannot be executed natively and are reported from the solver's trace alone."""
    short = name.rsplit("::", 1)[-1]
    short = re.sub(r"_(xpanic|mpanic)$", "", short)
    return not short.endswith("_nr")


def harness_mode(name):
    short = name.rsplit("::", 1)[-1]
    if short.endswith("_xpanic"):
        return "xpanic"   # the call must panic: repo panics tolerated, harness asserts decide
    if short.endswith("_mpanic"):
        return "mpanic"   # the call may panic (exact-or-panic): repo panics tolerated
    return "strict"       # valid region: no failed check of any class is tolerated


PANIC_CATEGORIES = {"assertion", "unreachable", "arithmetic_overflow", "overflow", "division-by-zero",
                    "division_by_zero", "unsupported_construct_unused"}


def load_known_findings():
    p = os.path.join(VERIF, "known_findings.json")
    if not os.path.exists(p):
        return []
    return json.load(open(p)).get("findings", [])


def finding_matches(f, prop, harness, desc, func):
    """A known finding is keyed by property + the failing label (+ optional harness/function)."""
    if f.get("status", "open") != "open":
        return False  # `fixed` entries suppress nothing
    if f["property"] != prop:
        return False
    if f.get("label") and f["label"] not in desc:
        return False
    if f.get("harness") and not re.search(f["harness"], harness):
        return False
    if f.get("function") and f["function"] not in (func or ""):
        return False
    return True


def _watchdog(stop, limit_kb, ov, killed=None):
    """Kill any cbmc process of this run whose resident set exceeds the limit (`ulimit -v` cannot be used: it
    also applies to the Kani driver, which aborts when it cannot allocate).  A killed harness shows up as
    'no checks reported' = inconclusive."""
    import threading
    while not stop.wait(5):
        try:
            out = subprocess.run(["ps", "-eo", "pid,rss,args"], capture_output=True, text=True).stdout
        except Exception:
            continue
        for line in out.splitlines():
            parts = line.split(None, 2)
            # the real cbmc is started by the shim with its absolute path (".../bin/cbmc --..."); the shim itself is bash
            if len(parts) == 3 and (parts[2].startswith("cbmc ") or "/bin/cbmc --" in parts[2].split(" --json-ui")[0]) \
                    and not parts[2].startswith("/bin/bash") and ov in parts[2]:
                try:
                    if int(parts[1]) > limit_kb:
                        os.kill(int(parts[0]), signal.SIGKILL)
                        if killed is not None:
                            killed.append(int(parts[0]))
                except Exception:
                    pass


def run_kani(ov, filters, jobs, harness_timeout, total_timeout, extra, json_out, log_path, mem_gb=None):
    cmd = ["cargo", "kani"]
    for f in filters:
        cmd += ["--harness", f]
    cmd += ["-j", str(jobs), "--output-format", "terse", "-Z", "unstable-options",
            "--export-json", json_out, "--harness-timeout", f"{harness_timeout}s"]
    cmd += extra
    sh = " ".join("'" + c + "'" for c in cmd)
    t0 = time.time()
    import threading
    stop = threading.Event()
    wd = threading.Thread(target=_watchdog, args=(stop, int((mem_gb or 20) * 1024 * 1024), ov), daemon=True)
    wd.start()
    with open(log_path, "w") as lf:
        try:
            rc, _ = run_group(["bash", "-c", sh], ov, ENV, total_timeout, capture=False, stdout=lf)
        except subprocess.TimeoutExpired:
            rc = -9
        finally:
            stop.set()
    return rc, time.time() - t0


def scan_harness_names(ov):
    """Short names of the harness functions in the overlay's harness modules: functions that follow a
    `#[kani::proof]` attribute and the name argument of the instance macros (`inst!(name, ..)`)."""
    names = set()
    for d, _, fs in os.walk(os.path.join(ov, "src")):
        for f in fs:
            path = os.path.join(d, f)
            if not f.endswith(".rs") or "verif_" not in path:
                continue
            src = open(path).read()
            for m in re.finditer(r"#\[kani::proof\](?:\s*#\[[^\]]*\])*\s*(?:pub(?:\([a-z]+\))?\s+)?fn\s+(\w+)\s*\(", src):
                names.add(m.group(1))
            for m in re.finditer(r"\b\w+!\(\s*((?:c\d\d|pt)[a-z0-9_]*)\s*,", src):
                names.add(m.group(1))
    names.discard("")
    return sorted(n for n in names if not n.startswith("$"))


def run_kani_batched(ov, filters, jobs, harness_timeout, total_timeout, extra, json_out, log_path, mem_gb, batch):
    """The Kani driver keeps about 80 MB per finished harness until it exits (15 GB for the page-table family):
    large selections are run as several invocations of at most `batch` harnesses, named explicitly, and the
    result files are merged.  Selection = the harness names found in the overlay that contain one of the filters,
    i.e. what the filters themselves would select."""
    names = [n for n in scan_harness_names(ov) if any(f in n for f in filters)]
    # development aid (tools/seeded_run.py): restrict a check to the harnesses that can see a given change.  A
    # violation found by a subset is found by the registered check a fortiori; never set for registered commands.
    only = [x for x in os.environ.get("VERIF_ONLY", "").split(",") if x]
    skip = [x for x in os.environ.get("VERIF_SKIP", "").split(",") if x]
    restricted = bool(only or skip)
    if only:
        names = [n for n in names if any(x in n for x in only)]
    if skip:
        names = [n for n in names if not any(x in n for x in skip)]
    # a name that is a substring of another one selects both: drop the longer one from the explicit list
    names = [n for n in names if not any(o != n and o in n for o in names)]
    if restricted and names and len(names) <= batch + batch // 4:
        return run_kani(ov, names, jobs, harness_timeout, total_timeout, extra, json_out, log_path, mem_gb)
    if not batch or len(names) <= batch + batch // 4:
        return run_kani(ov, filters, jobs, harness_timeout, total_timeout, extra, json_out, log_path, mem_gb)
    t0 = time.time()
    merged = None
    rc_all = 0
    # the clean_up harnesses (c10*) need ~5 GB of CBMC memory each: they get batches of their own, 6 at a time
    heavy = [n for n in names if n.startswith("c10")]
    light = [n for n in names if not n.startswith("c10")]
    if len(heavy) <= 3:
        light, heavy = heavy + light, []  # a few of them fit next to the others (and start first)
    parts = []
    if light:
        nb = (len(light) + batch - 1) // batch
        size = (len(light) + nb - 1) // nb
        parts += [(light[k * size:(k + 1) * size], jobs) for k in range(nb)]
    if heavy:
        parts += [(heavy[k:k + 24], min(jobs, 6)) for k in range(0, len(heavy), 24)]
    for k, (part, pj) in enumerate(parts):
        jk = json_out + f".{k}"
        left = max(60, total_timeout - (time.time() - t0))
        rc, _ = run_kani(ov, part, pj, harness_timeout, left, extra, jk, log_path + f".{k}", mem_gb)
        with open(log_path, "a") as lf:
            lf.write(open(log_path + f".{k}").read())
        rc_all = rc_all or rc
        if not os.path.exists(jk):
            return rc or 1, time.time() - t0   # no merged file: the caller reports "no results"
        d = json.load(open(jk))
        os.remove(jk)
        if merged is None:
            merged = d
            continue
        seen = {r["harness_id"] for r in merged["verification_results"]["results"]}
        merged["verification_results"]["results"] += [r for r in d["verification_results"]["results"] if r["harness_id"] not in seen]
        seen_m = {json.dumps(h, sort_keys=True) for h in merged.get("harness_metadata", [])}
        merged.setdefault("harness_metadata", [])
        merged["harness_metadata"] += [h for h in d.get("harness_metadata", []) if json.dumps(h, sort_keys=True) not in seen_m]
        merged.setdefault("cbmc", [])
        merged["cbmc"] += [c for c in d.get("cbmc", []) if c.get("harness_id") not in seen]
    json.dump(merged, open(json_out, "w"))
    return rc_all, time.time() - t0


def classify(prop, results, known, expected_panics=(), own_labels_only=False):
    """Returns (violations, findings, inconclusive, stats, per_harness)."""
    violations, findings, inconclusive = [], [], []
    per_harness = []
    tot = dict(checks=0, success=0, failed=0, unreachable=0, covers=0, covers_sat=0, vp_asserts=0,
               vp_reachable=0)
    for r in results:
        h = r["harness_id"]
        mode = harness_mode(h)
        hv, hf, hi = [], [], []
        n_vp = n_vp_reach = 0
        for c in r.get("checks", []):
            st = c["status"]
            desc = c.get("description", "")
            cat = c.get("category", "")
            loc = c.get("location") or {}
            file = loc.get("file", "") or ""
            func = c.get("function", "")
            tot["checks"] += 1
            is_vp = desc.startswith("VP[")
            if is_vp:
                n_vp += 1
                if st != "Unreachable":
                    n_vp_reach += 1
            if cat == "cover" and is_vp:
                # obligation encoded as cover(!cond): SATISFIED = violated, otherwise it holds
                if st == "Satisfied":
                    st = "Failure"
                elif st in ("Unsatisfiable", "Unreachable"):
                    if st == "Unsatisfiable":
                        tot["success"] += 1
                    else:
                        tot["unreachable"] += 1
                    continue
                else:
                    hi.append(f"obligation `{desc}` has status {st}")
                    continue
            elif cat == "cover":
                tot["covers"] += 1
                if st == "Satisfied":
                    tot["covers_sat"] += 1
                else:
                    hi.append(f"vacuity: cover `{desc}` is {st} at {file}:{loc.get('line')}")
                continue
            if st == "Success":
                tot["success"] += 1
                continue
            if st == "Unreachable":
                tot["unreachable"] += 1
                continue
            if st != "Failure":
                hi.append(f"check `{desc}` has status {st}")
                continue
            tot["failed"] += 1
            if "unwinding assertion" in desc:
                hi.append(f"unwinding bound too small: {desc}")
                continue
            in_harness = "verif_" in file or "verif_" in func
            if is_vp:
                m = re.match(r"VP\[(C\d+)\]", desc)
                pid = m.group(1) if m else prop
                if own_labels_only and pid != prop:
                    tot["other_property_failures"] = tot.get("other_property_failures", 0) + 1
                    continue  # shared harness family: counted by that property's own check
                item = dict(property=pid, harness=h, label=desc, function=func, where=f"{file}:{loc.get('line')}")
            else:
                if mode in ("xpanic", "mpanic") and not in_harness and cat in PANIC_CATEGORIES:
                    continue  # a panic the property allows here
                if mode in ("xpanic", "mpanic") and not in_harness and cat not in PANIC_CATEGORIES:
                    hi.append(f"non-panic failure `{desc}` [{cat}] at {file}:{loc.get('line')} in may-panic harness")
                    continue
                if in_harness and mode in ("xpanic", "mpanic") and any(re.search(x, desc) for x in expected_panics):
                    continue  # crate macro expanded inside the harness file: the panic is the crate's
                if in_harness:
                    hi.append(f"harness-side failure `{desc}` [{cat}] at {file}:{loc.get('line')}")
                    continue
                item = dict(property=prop, harness=h,
                            label=f"unexpected failure in valid region: {desc} [{cat}]",
                            function=func, where=f"{file}:{loc.get('line')}")
            kf = [f for f in known if finding_matches(f, item["property"], h, item["label"], func)]
            if kf:
                item["finding_id"] = kf[0].get("id", "")
                item["what"] = kf[0].get("what", "")
                hf.append(item)
            else:
                hv.append(item)
        if r.get("status") not in ("Success", "Failure"):
            hi.append(f"harness status {r.get('status')}")
        if not r.get("checks"):
            hi.append("no checks reported (timeout / OOM / CBMC error)")
        tot["vp_asserts"] += n_vp
        tot["vp_reachable"] += n_vp_reach
        per_harness.append(dict(harness=h, mode=mode, status=r.get("status"), duration_ms=r.get("duration_ms"),
                                checks=len(r.get("checks", [])), vp_asserts=n_vp,
                                violations=len(hv), known_findings=len(hf), inconclusive=hi))
        violations += hv
        findings += hf
        inconclusive += [f"{h}: {x}" for x in hi]
    return violations, findings, inconclusive, tot, per_harness


def replay(ov, prop, item, extra, timeout=900, native=True):
    """Concrete playback of one failing harness; returns (reproduced: bool|None, path, note).

    Kani prints one unit test per failing check / cover (`--concrete-playback=print`).  The tests are
    appended as a `#[cfg(test)] mod verif_playback` to the harness file in the overlay (Kani's own
    `inplace` mode cannot place tests for macro-generated harnesses) and run natively with
    `cargo kani playback` in the dev and the release profile."""
    h = item["harness"]
    parts = h.split("::")
    short = parts[-1]
    vi = max(i for i, x in enumerate(parts) if x.startswith("verif_"))
    rel = "::".join(parts[vi + 1:])
    uniq = "__".join(parts[-3:]) if len(parts) >= 3 else short
    outdir = os.path.join(os.environ.get("VERIF_REPLAY_DIR") or os.path.join(VERIF, "replays"), prop)
    os.makedirs(outdir, exist_ok=True)
    path = os.path.join(outdir, uniq + ".rs")
    cmd = ["cargo", "kani", "--harness", h, "--exact", "-Z", "concrete-playback", "--concrete-playback=print"] + extra
    try:
        # concrete playback reads the values of the `kani::any()` inputs from CBMC's trace: the filter keeps the traces
        # in this run but prunes them to the steps inside `kani::any_raw_*` (VERIF_PLAYBACK_UNFILTERED=1: no filter)
        penv = dict(ENV, VERIF_CBMC_FILTER="") if os.environ.get("VERIF_PLAYBACK_UNFILTERED") else dict(ENV, VERIF_CBMC_FILTER_MODE="playback")
        import threading
        stop = threading.Event()
        wd_killed = []
        # the trace-producing CBMC run of a clean_up harness on a broken tree reached 31 GB: same RSS guard as the main run
        threading.Thread(target=_watchdog, args=(stop, 24 * 1024 * 1024, ov, wd_killed), daemon=True).start()
        try:
            _rc, gen_out = run_group(cmd, ov, penv, timeout if native else min(timeout, 300))
        finally:
            stop.set()
    except subprocess.TimeoutExpired:
        if not native:
            # CBMC-only harness: the verdict is the solver's (the obligation's cover came back SATISFIED in the
            # main run); only the extraction of concrete values for the report did not finish
            open(path, "w").write(f"// Replay for {item['property']} / {h}\n// failing obligation: {item['label']}\n"
                                  "// solver counterexample exists (cover SATISFIED); extracting its values (Kani concrete playback, an\n"
                                  "// unfiltered CBMC run with the full trace) timed out; no native replay: CBMC-only environment\n")
            return True, path, "solver counterexample (values not extracted: concrete-playback run timed out; CBMC-only environment)"
        # The solver's verdict stands (the obligation's cover came back SATISFIED on the real code); what did not
        # finish is the second, trace-producing CBMC run that extracts the concrete input values for a native test.
        # This is reported as a violation "without native replay (budget)" -- distinct from a replay that ran and did
        # not reproduce, which stays unconfirmed (exit 2).
        open(path, "w").write(f"// Replay for {item['property']} / {h}\n// failing obligation: {item['label']}\n"
                              "// solver counterexample exists (cover SATISFIED in the main run); the trace-producing run that extracts its\n"
                              f"// values for a native test exceeded its time budget ({timeout} s)\n")
        return True, path, f"solver counterexample; native replay not produced: value extraction exceeded {timeout} s"
    blocks = re.findall(r"#\[test\]\s*\nfn kani_concrete_playback_\w+\(\) \{.*?\n\}\n", gen_out, re.S)
    seen_names, uniq_blocks = set(), []
    for b in blocks:
        nm = re.search(r"fn (kani_concrete_playback_\w+)\(", b).group(1)
        if nm not in seen_names:
            seen_names.add(nm)
            uniq_blocks.append(b)
    blocks = uniq_blocks
    if not blocks:
        open(path, "w").write("// no concrete playback test was generated\n// " + item["label"] + "\n")
        if not native:
            return True, path, "solver counterexample (values not extracted; CBMC-only environment)"
        if wd_killed:
            open(path, "a").write("// the trace-producing CBMC run was stopped by the memory guard (24 GB): solver counterexample without native replay\n")
            return True, path, "solver counterexample; native replay not produced: value extraction exceeded the 24 GB memory guard"
        return None, path, "no playback test generated"
    body = "\n".join(blocks).replace(f"concrete_vals, {short})", f"concrete_vals, super::{rel})")
    with open(path, "w") as fh:
        fh.write(f"// Replay for {item['property']} / {h}\n// failing obligation: {item['label']}\n"
                 f"// generated by `cargo kani -Z concrete-playback` on the overlay of /repo (tools/overlay.py);\n"
                 f"// to re-run: build the overlay, append this module to the harness file and run\n"
                 f"//   cargo kani playback -Z concrete-playback [--release] -- verif_playback\n\n"
                 f"#[cfg(test)]\nmod verif_playback {{\n{body}\n}}\n")
    if not native:
        with open(path, "a") as fh:
            fh.write("\n// native replay: not available -- this harness runs in a CBMC-only environment (Kani stubs model\n"
                     "// pointer/address conversions that cannot exist in a user-space process); the values above are the\n"
                     "// solver's counterexample for the harness's symbolic inputs.\n")
        return True, path, "solver counterexample (no native replay: CBMC-only environment)"
    # locate the harness file in the overlay
    target = None
    for d, dirs, fs in os.walk(os.path.join(ov, "src")):
        for f in fs:
            if f == parts[vi] + ".rs":
                target = os.path.join(d, f)
        if parts[vi] in dirs and os.path.exists(os.path.join(d, parts[vi], "mod.rs")):
            target = os.path.join(d, parts[vi], "mod.rs")
    if not target:
        return None, path, "harness file not found in overlay"
    orig = open(target).read()
    open(target, "w").write(orig + f"\n#[cfg(test)]\nmod verif_playback {{\n{body}\n}}\n")
    lab = item["label"]
    needle = lab if lab.startswith("VP[") else lab.replace("unexpected failure in valid region: ", "").rsplit(" [", 1)[0]
    reproduced = False
    notes = []
    try:
        rel_env = dict(ENV)
        for prof in ("DEV", "TEST"):  # `cargo kani playback` has no --release: same settings via profile overrides
            rel_env[f"CARGO_PROFILE_{prof}_OPT_LEVEL"] = "3"
            rel_env[f"CARGO_PROFILE_{prof}_DEBUG_ASSERTIONS"] = "false"
            rel_env[f"CARGO_PROFILE_{prof}_OVERFLOW_CHECKS"] = "false"
        for profile in ([], ["--release"]):
            cmd = ["cargo", "kani", "playback", "-Z", "concrete-playback", "--", "verif_playback", "--test-threads=1", "--nocapture"]
            try:
                _rc, out = run_group(cmd, ov, (rel_env if profile else ENV), timeout)
            except subprocess.TimeoutExpired:
                notes.append(f"{'release' if profile else 'dev'}: timeout")
                continue
            m = re.search(r"test result: \w+\. (\d+) passed; (\d+) failed", out)
            other = None
            if lab.startswith("VP["):
                # natively `vp!` prints "VIOLATED VP[..]: .." and goes on
                hit = ("VIOLATED " + needle) in out
                if not hit:
                    # the concrete input may violate another obligation of the same property first and then take a
                    # different path (e.g. panic): it still violates the property on the real code
                    mo = re.search(r"VIOLATED (VP\[%s\]: [^\n]*)" % re.escape(item["property"]), out)
                    if mo:
                        hit, other = True, mo.group(1)
            else:
                hit = needle in out and re.search(r"panicked at", out) is not None
            if not m:
                err = re.findall(r"^error[^\n]*", out, re.M)
                notes.append(f"{'release' if profile else 'dev'}: no result ({'; '.join(err[:2])})")
            else:
                notes.append(f"{'release' if profile else 'dev'}: {m.group(0)}; obligation {'reproduced' if hit else 'not reproduced'}"
                             + (f" (the native run violates another obligation of the same property: {other[:120]})" if other else ""))
            if hit:
                reproduced = True
    finally:
        open(target, "w").write(orig)
    with open(path, "a") as fh:
        fh.write("\n// native replay: " + "; ".join(notes) + "\n")
    return reproduced, path, "; ".join(notes)


def run_check(prop, tier, cfg):
    """cfg keys: filters_quick, filters_thorough, jobs, harness_timeout, total_timeout, extra, mem_gb,
    assumptions, bounds, functions, note"""
    t0 = time.time()
    seed = int(os.environ.get("VERIF_SEED", "0") or 0)
    known = load_known_findings()
    ev_path = os.path.join(os.environ.get("VERIF_EVIDENCE_DIR") or os.path.join(VERIF, "evidence"), f"{prop}.json")
    os.makedirs(os.path.dirname(ev_path), exist_ok=True)
    if os.path.exists(ev_path):
        os.remove(ev_path)
    filters = cfg["filters_thorough"] if tier == "thorough" else cfg["filters_quick"]
    rc_final = 0
    ov = None
    try:
        try:
            ov, info = overlay.make(tag=f"{prop}.{tier}", lift_asm=cfg.get("lift_asm", True))
        except overlay.OverlayError as e:
            log(f"INCONCLUSIVE property={prop}: overlay failed: {e}")
            return 2
        if cfg.get("pre"):
            try:
                cfg["pre"](ov, tier, seed)
            except overlay.OverlayError as e:
                log(f"INCONCLUSIVE property={prop}: {e}")
                return 2
        json_out = os.path.join(ov, "kani_results.json")
        log_path = os.path.join(ov, "kani.log")
        extra = list(cfg.get("extra", []))
        rc, wall = run_kani_batched(ov, filters, cfg.get("jobs", 8),
                                    cfg.get("harness_timeout_thorough" if tier == "thorough" else "harness_timeout", 600),
                                    cfg.get("total_timeout_thorough" if tier == "thorough" else "total_timeout", 3000),
                                    extra, json_out, log_path, cfg.get("mem_gb"), cfg.get("batch", 48))
        if not os.path.exists(json_out):
            tail = open(log_path).read()[-4000:]
            log(tail)
            log(f"INCONCLUSIVE property={prop}: cargo kani produced no results (rc={rc})")
            keep = os.path.join(os.path.dirname(ev_path), f"{prop}.kani.log")
            shutil.copy(log_path, keep)
            return 2
        data = json.load(open(json_out))
        results = data.get("verification_results", {}).get("results", [])
        n_expected = len(data.get("harness_metadata", []))
        # ---- second chance for harnesses that did not finish (per-harness timeout on a loaded machine, RSS
        # watchdog): run them again, fewer at a time, with three times the time budget.  Only what is still
        # unfinished after that is reported as inconclusive.
        def _unfinished(rs):
            return [r["harness_id"] for r in rs if not r.get("checks") or r.get("status") not in ("Success", "Failure")]
        retry = _unfinished(results)
        retried = []
        if retry and len(retry) <= 24 and not os.environ.get("VERIF_NO_RETRY"):
            log(f"{prop} {tier}: {len(retry)} harness(es) did not finish, retrying: " + ", ".join(x.rsplit("::", 1)[-1] for x in retry))
            json2 = os.path.join(ov, "kani_results_retry.json")
            ht = cfg.get("harness_timeout_thorough" if tier == "thorough" else "harness_timeout", 600)
            rc2, _w2 = run_kani(ov, [x.rsplit("::", 1)[-1] for x in retry], min(4, len(retry)), 3 * ht,
                                3 * ht * (1 + len(retry) // 4), extra, json2, log_path + ".retry",
                                (cfg.get("mem_gb") or 20) * 1.5)
            if os.path.exists(json2):
                d2 = json.load(open(json2))
                r2 = {r["harness_id"]: r for r in d2.get("verification_results", {}).get("results", []) if r["harness_id"] in retry}
                results = [r2.get(r["harness_id"], r) for r in results]
                data.setdefault("cbmc", [])
                data["cbmc"] = [c for c in data["cbmc"] if c.get("harness_id") not in r2] + [c for c in d2.get("cbmc", []) if c.get("harness_id") in r2]
                retried = sorted(r2)
        violations, findings, inconcl, tot, per_h = classify(prop, results, known, cfg.get("expected_panics", ()),
                                                             cfg.get("own_labels_only", False) and not os.environ.get("VERIF_ALL_LABELS"))
        if len(results) != n_expected:
            inconcl.append(f"{n_expected} harnesses selected but {len(results)} reported")
        if n_expected == 0:
            inconcl.append("no harness matched " + ",".join(filters))
        min_h = cfg.get("min_harnesses", 1)
        if n_expected < min_h:
            inconcl.append(f"only {n_expected} harnesses matched, expected >= {min_h}")
        # ---- replay one representative harness per distinct failing obligation (label + location)
        confirmed, unconfirmed = [], []
        groups = {}
        for v in violations:
            groups.setdefault((v["label"], v["where"]), []).append(v)
        # natively replayable representatives first; after `max_replays` groups, once a violation is confirmed, the
        # remaining failing obligations are listed without a replay of their own (each replay is a Kani
        # concrete-playback run plus two native test builds: minutes, and a broken tree fails dozens of obligations)
        max_replays = int(os.environ.get("VERIF_MAX_REPLAYS", "4") or 4)
        dur_ms = {r["harness_id"]: (r.get("duration_ms") or 0) for r in results}
        # groups with a natively replayable, fast member first
        order = sorted(groups.items(), key=lambda kv: min((0 if native_replayable(v["harness"]) else 1, dur_ms.get(v["harness"], 0)) for v in kv[1]))
        also_failing = []
        for n_done, (key, members) in enumerate(order):
            if (n_done >= max_replays and confirmed) or n_done >= 3 * max_replays:
                also_failing += members
                continue
            # representative of the group: a natively replayable member if there is one, and the fastest harness
            # among those (the concrete-playback run repeats the harness with the full trace)
            members.sort(key=lambda v: (0 if native_replayable(v["harness"]) else 1, dur_ms.get(v["harness"], 0)))
            rep_v = members[0]
            budget = int(min(2400, max(900, 4 * dur_ms.get(rep_v["harness"], 0) / 1000 + 300)))
            if not native_replayable(rep_v["harness"]):
                rep, path, note = replay(ov, prop, rep_v, extra, native=False)
            else:
                rep, path, note = replay(ov, prop, rep_v, extra, timeout=budget)
            for v in members:
                v["replay"] = path
                v["replay_note"] = note + ("" if v is rep_v else f" (representative: {rep_v['harness']})")
                (confirmed if rep else unconfirmed).append(v)
        if also_failing:
            log(f"{prop} {tier}: {len(also_failing)} further failing obligation(s) in {len({v['harness'] for v in also_failing})} harness(es) not replayed individually:")
            for lab in sorted({v["label"] for v in also_failing})[:12]:
                log(f"  also failing: {lab}")
        for f in findings:
            log(f"KNOWN-FINDING: property={f['property']} {f.get('what') or f['label']} [{f['harness'].rsplit('::',1)[-1]}]")
        for v in confirmed:
            log(f"VIOLATION property={prop} replay={v['replay']}")
            log(f"  harness={v['harness']} obligation={v['label']} at {v['where']}")
        for v in unconfirmed:
            log(f"UNCONFIRMED counterexample property={v['property']} harness={v['harness']} obligation={v['label']} ({v['replay_note']})")
        for x in inconcl:
            log(f"INCONCLUSIVE property={prop}: {x}")
        if confirmed:
            rc_final = 1
        elif unconfirmed or inconcl:
            rc_final = 2
        # ---- evidence
        cb = {c["harness_id"]: c for c in data.get("cbmc", [])}
        solver_s = sum(((c.get("cbmc_stats") or {}).get("runtime_decision_procedure_s") or 0) for c in cb.values())
        symex_s = sum(((c.get("cbmc_stats") or {}).get("runtime_symex_s") or 0) for c in cb.values())
        vccs = sum(((c.get("cbmc_stats") or {}).get("vccs_generated") or 0) for c in cb.values())
        samples = []
        own_tag = f"VP[{prop}]"
        n_own = sum(1 for r in results for c in r.get("checks", []) if c.get("description", "").startswith(own_tag))
        for r in results:
            for c in r.get("checks", []):
                if c.get("description", "").startswith(own_tag if n_own else "VP[") and len(samples) < 8 and not any(x["obligation"] == c["description"] for x in samples):
                    stt = {"Satisfied": "VIOLATED", "Unsatisfiable": "holds", "Unreachable": "holds (not reachable)"}.get(c["status"], c["status"])
                    samples.append(dict(harness=r["harness_id"], obligation=c["description"], status=stt))
        funcs = sorted({c.get("function", "") for r in results for c in r.get("checks", [])
                        if "verif_" not in (c.get("function") or "") and c.get("function")})
        ev = dict(
            property_id=prop, tier=tier, seed=seed, level="model_checking",
            coverage=dict(
                evaluations=tot["checks"],
                distinct_nontrivial=tot["vp_reachable"] + tot["covers_sat"],
                rule=("one evaluation = one CBMC property (harness obligation `VP[..]`, reachability cover, or a "
                      "compiler-inserted panic/overflow/bounds check inside the crate's code) decided by the SAT solver "
                      "over all values of the harness's symbolic inputs; non-trivial = harness obligations that are "
                      "reachable plus satisfied reachability covers (distinct by source location)"),
                samples=samples or [dict(note="no VP obligations in selected harnesses")],
                obligations=tot["checks"], discharged=tot["success"] + tot["unreachable"] + tot["covers_sat"],
                exhaustive=False,
                engine="Kani 0.68.0 / CBMC 6.11.0 / CaDiCaL (bit-precise SAT), unwinding assertions on",
                harnesses=per_h, harness_count=len(results), own_label_obligations=n_own,
                functions_encoded=funcs[:200],
                bounds=cfg.get("bounds", ""),
                queries=dict(cbmc_properties=tot["checks"], vccs_generated=vccs, failed=tot["failed"],
                             covers=tot["covers"], covers_satisfied=tot["covers_sat"]),
                solver_time_s=round(solver_s, 3), symex_time_s=round(symex_s, 3),
                tree_sha256=info.get("tree_sha256"),
                overlay=dict(o1=info.get("o1_modules"), o2_sites=info.get("o2_sites"), o3=info.get("o3_impls")),
                stubs=cfg.get("stubs", []),
                known_findings=[dict(label=f["label"], harness=f["harness"]) for f in findings],
                inconclusive=inconcl, retried_after_timeout=retried,
                failing_not_replayed=sorted({v["label"] for v in also_failing})[:40],
                trusted_base=cfg.get("trusted_base", ["rustc->Kani->goto-program translation", "CBMC 6.11 + CaDiCaL",
                                                        "overlay edits O1-O4 (DESIGN.md 2.1)"]),
            ),
            assumptions=cfg.get("assumptions", []),
            wall_s=round(time.time() - t0, 2),
            violations=len(confirmed),
        )
        if cfg.get("post_evidence"):
            cfg["post_evidence"](ev)
        json.dump(ev, open(ev_path, "w"), indent=1)
        log(f"{prop} {tier}: {len(results)} harnesses, {tot['checks']} checks ({tot['failed']} failed, "
            f"{len(findings)} known findings, {len(confirmed)} violations, {len(inconcl)} inconclusive), "
            f"solver {solver_s:.1f}s, wall {time.time()-t0:.0f}s")
        return rc_final
    finally:
        if ov and not os.environ.get("VERIF_KEEP"):
            overlay.remove(ov)
