/* Filter for CBMC's --json-ui stream, placed between cbmc and kani-driver (tools/bin/cbmc).
 *
 * kani-driver parses the whole output of every harness and keeps it until it exits.  Two things in it are large
 * and unused by this machinery:
 *   (1) the "trace" of every FAILED property.  Kani instruments each check with a reachability property that is
 *       *expected* to fail, so a page-table harness carries dozens of traces of ~9 MB each: 390 MB of JSON per
 *       harness, 277 MB of it traces (measured), i.e. gigabytes resident in the driver with 14 harnesses in
 *       flight.  Counterexample values are taken from a separate concrete-playback run, which is not filtered.
 *   (2) per-iteration progress messages ("Unwinding loop .. iteration N"): millions for the clean_up harnesses.
 *
 * The stream is a pretty-printed JSON array.  Top-level elements start with the line "  {" and end with "  },"
 * or "  }".  A progress message is dropped as a whole element (it is never the last element, so the array stays
 * valid).  Inside the other elements a member `"trace": [ .. ]` at 8 spaces of indentation (a property object of
 * the "result" array) is removed; if it was the object's last member the comma that ended the previous line is
 * removed as well.  Everything else passes through byte for byte. */
#include <stdio.h>
#include <stdlib.h>
#include <string.h>

static char *held = NULL;      /* one line of look-behind */
static size_t held_len = 0, held_cap = 0;

static void flush_held(void) {
    if (held_len) fwrite(held, 1, held_len, stdout);
    held_len = 0;
}
static void hold(const char *line, size_t n) {
    flush_held();
    if (n + 1 > held_cap) { held_cap = 2 * (n + 1); held = realloc(held, held_cap); if (!held) exit(1); }
    memcpy(held, line, n);
    held_len = n;
}

int main(void) {
    char *line = NULL;
    size_t lcap = 0;
    ssize_t n;
    enum { OUT, FIRST, PASS, DROP, TRACE } st = OUT;
    while ((n = getline(&line, &lcap, stdin)) > 0) {
        switch (st) {
        case OUT:
            if (strcmp(line, "  {\n") == 0) { hold(line, (size_t)n); st = FIRST; }
            else { hold(line, (size_t)n); flush_held(); }
            break;
        case FIRST: /* first member of a top-level element decides */
            if (strncmp(line, "    \"messageText\": \"Unwinding loop ", 34) == 0 ||
                strncmp(line, "    \"messageText\": \"Not unwinding loop ", 38) == 0) {
                held_len = 0; /* forget the "  {" */
                st = DROP;
            } else {
                hold(line, (size_t)n);
                st = PASS;
            }
            if (strcmp(line, "  },\n") == 0 || strcmp(line, "  }\n") == 0) { flush_held(); st = OUT; }
            break;
        case DROP:
            if (strcmp(line, "  },\n") == 0 || strcmp(line, "  }\n") == 0) st = OUT;
            break;
        case PASS:
            if (strcmp(line, "        \"trace\": [\n") == 0) { st = TRACE; break; }
            hold(line, (size_t)n);
            if (strcmp(line, "  },\n") == 0 || strcmp(line, "  }\n") == 0) { flush_held(); fflush(stdout); st = OUT; }
            break;
        case TRACE:
            if (strcmp(line, "        ],\n") == 0) st = PASS;
            else if (strcmp(line, "        ]\n") == 0) {
                /* the trace was the last member: drop the comma that ended the previous member */
                if (held_len >= 2 && held[held_len - 2] == ',') { held[held_len - 2] = '\n'; held_len -= 1; }
                st = PASS;
            }
            break;
        }
    }
    flush_held();
    fflush(stdout);
    return 0;
}
