/* Filter for CBMC's --json-ui stream, placed between cbmc and kani-driver (tools/bin/cbmc).
 *
 * kani-driver parses the whole output of every harness and keeps it until it exits.  Two things in it are large
 * and unused by this machinery:
 *   (1) the "trace" of every FAILED property.  Kani instruments each check with a reachability property that is
 *       *expected* to fail, so a page-table harness carries dozens of traces of ~9 MB each: 390 MB of JSON per
 *       harness, 277 MB of it traces (measured), i.e. gigabytes resident in the driver with 14 harnesses in
 *       flight.  Counterexample values are taken from a separate concrete-playback run, which is not filtered.
 *   (2) per-iteration progress messages ("Unwinding loop .. iteration N"): millions for the clean_up harnesses.
 *
 * The stream is a pretty-printed JSON array.  Top-level elements start with the line "  {" and end with "  },"
 * or "  }".  A progress message is dropped as a whole element (it is never the last element, so the array stays
 * valid).  Inside the other elements a member `"trace": [ .. ]` at 8 spaces of indentation (a property object of
 * the "result" array) is removed; if it was the object's last member the comma that ended the previous line is
 * removed as well.  Everything else passes through byte for byte. */
#include <stdio.h>
#include <stdlib.h>
#include <string.h>

static char *held = NULL;      /* one line of look-behind */
static size_t held_len = 0, held_cap = 0;

static void flush_held(void) {
    if (held_len) fwrite(held, 1, held_len, stdout);
    held_len = 0;
}
static void hold(const char *line, size_t n) {
    flush_held();
    if (n + 1 > held_cap) { held_cap = 2 * (n + 1); held = realloc(held, held_cap); if (!held) exit(1); }
    memcpy(held, line, n);
    held_len = n;
}

/* playback mode (argv[1] == "playback"): Kani's concrete playback reads the values of the harness's `kani::any()`
 * inputs from the trace of a failed property -- trace steps inside `kani::any_raw_*`.  The traces are kept, but
 * every step that does not mention `any_raw` is dropped (a clean_up harness has traces of gigabytes, and the driver
 * did not finish parsing them in 30 minutes). */
static char *step = NULL;
static size_t step_len = 0, step_cap = 0;
static int step_keep = 0, steps_out = 0;
static void step_add(const char *line, size_t n) {
    if (step_len + n + 1 > step_cap) { step_cap = 2 * (step_len + n + 1); step = realloc(step, step_cap); if (!step) exit(1); }
    memcpy(step + step_len, line, n);
    step_len += n;
}

int main(int argc, char **argv) {
    int playback = argc > 1 && strcmp(argv[1], "playback") == 0;
    int in_step = 0;
    char *line = NULL;
    size_t lcap = 0;
    ssize_t n;
    enum { OUT, FIRST, PASS, DROP, TRACE } st = OUT;
    while ((n = getline(&line, &lcap, stdin)) > 0) {
        switch (st) {
        case OUT:
            if (strcmp(line, "  {\n") == 0) { hold(line, (size_t)n); st = FIRST; }
            else { hold(line, (size_t)n); flush_held(); }
            break;
        case FIRST: /* first member of a top-level element decides */
            if (strncmp(line, "    \"messageText\": \"Unwinding loop ", 34) == 0 ||
                strncmp(line, "    \"messageText\": \"Not unwinding loop ", 38) == 0) {
                held_len = 0; /* forget the "  {" */
                st = DROP;
            } else {
                hold(line, (size_t)n);
                st = PASS;
            }
            if (strcmp(line, "  },\n") == 0 || strcmp(line, "  }\n") == 0) { flush_held(); st = OUT; }
            break;
        case DROP:
            if (strcmp(line, "  },\n") == 0 || strcmp(line, "  }\n") == 0) st = OUT;
            break;
        case PASS:
            if (strcmp(line, "        \"trace\": [\n") == 0) {
                if (playback) { hold(line, (size_t)n); flush_held(); steps_out = 0; in_step = 0; }
                st = TRACE;
                break;
            }
            hold(line, (size_t)n);
            if (strcmp(line, "  },\n") == 0 || strcmp(line, "  }\n") == 0) { flush_held(); fflush(stdout); st = OUT; }
            break;
        case TRACE:
            if (playback) {
                /* steps are objects at 10 spaces of indentation */
                if (!in_step && strcmp(line, "          {\n") == 0) { in_step = 1; step_len = 0; step_keep = 0; step_add(line, (size_t)n); break; }
                if (in_step) {
                    if (strcmp(line, "          },\n") == 0 || strcmp(line, "          }\n") == 0) {
                        if (step_keep) {
                            if (steps_out) fputs(",\n", stdout);
                            fwrite(step, 1, step_len, stdout);
                            fputs("          }", stdout);
                            steps_out++;
                        }
                        in_step = 0;
                    } else {
                        step_add(line, (size_t)n);
                        if (!step_keep && strstr(line, "any_raw")) step_keep = 1;
                    }
                    break;
                }
                if (strcmp(line, "        ],\n") == 0 || strcmp(line, "        ]\n") == 0) {
                    if (steps_out) fputs("\n", stdout);
                    fwrite(line, 1, (size_t)n, stdout);
                    st = PASS;
                }
                break;
            }
            if (strcmp(line, "        ],\n") == 0) st = PASS;
            else if (strcmp(line, "        ]\n") == 0) {
                /* the trace was the last member: drop the comma that ended the previous member */
                if (held_len >= 2 && held[held_len - 2] == ',') { held[held_len - 2] = '\n'; held_len -= 1; }
                st = PASS;
            }
            break;
        }
    }
    flush_held();
    fflush(stdout);
    return 0;
}
