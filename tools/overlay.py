#!/usr/bin/env python3
"""Build the scratch *overlay* of /repo that Kani compiles (DESIGN.md section 2.1).

The overlay is a copy of /repo's current working tree plus four mechanical,
content-independent edits.  Each edit is verified to have matched; a non-matching
edit raises OverlayError, which the runner reports as *inconclusive* (exit 2).

  O1  harness modules: every entry `verif_*` under /verif/harness/src/<dir>/ is copied
      to <overlay>/src/<dir>/ and declared `#[cfg(kani)] mod verif_x;` at the end of the
      module file that owns <dir> (src/<dir>.rs or src/<dir>/mod.rs; src/lib.rs for src/).
  O2  asm lifting: the path `core::arch::asm` is rewritten to `crate::verif_isa::asm`
      (macro shadow with the same call syntax).
  O3  toolchain shim: two unimplemented!() methods are added to each `impl Step for`.
  O4  `[workspace]` table appended to Cargo.toml.

No existing line of /repo is changed other than the `core::arch::asm` path (O2).
"""
import hashlib
import os
import re
import shutil
import subprocess
import sys

REPO = os.environ.get("VERIF_REPO", "/repo")
VERIF = os.path.dirname(os.path.dirname(os.path.abspath(__file__)))
HARNESS = os.path.join(VERIF, "harness", "src")


class OverlayError(Exception):
    pass


def tree_hash(root):
    """sha256 over Cargo.toml and every file under src/ (path + content)."""
    h = hashlib.sha256()
    files = [os.path.join(root, "Cargo.toml")]
    for d, _, fs in os.walk(os.path.join(root, "src")):
        for f in fs:
            files.append(os.path.join(d, f))
    for f in sorted(files):
        h.update(os.path.relpath(f, root).encode())
        with open(f, "rb") as fh:
            h.update(fh.read())
    return h.hexdigest()


def scratch_root():
    base = os.environ.get("VERIF_SCRATCH", "/var/tmp")
    os.makedirs(base, exist_ok=True)
    return base


def owner_module_file(ov, reldir):
    """Module file that owns directory src/<reldir>."""
    if reldir in ("", "."):
        return os.path.join(ov, "src", "lib.rs")
    a = os.path.join(ov, "src", reldir + ".rs")
    b = os.path.join(ov, "src", reldir, "mod.rs")
    if os.path.exists(a):
        return a
    if os.path.exists(b):
        return b
    raise OverlayError(f"O1: no module file owns src/{reldir} (harness placement is stale)")


STEP_SHIM = (
    "\n    // [verif O3] toolchain shim for Kani's rustc (new required methods of `Step`); never called.\n"
    "    fn forward_overflowing(_s: Self, _n: usize) -> (Self, bool) { unimplemented!() }\n"
    "    fn backward_overflowing(_s: Self, _n: usize) -> (Self, bool) { unimplemented!() }\n"
)


def publicise(path):
    """Harness fns and their (macro-generated) modules become pub(crate) so that the replay module
    appended to the harness file can name them."""
    if os.path.isdir(path):
        for d, _, fs in os.walk(path):
            for f in fs:
                if f.endswith(".rs"):
                    publicise(os.path.join(d, f))
        return
    s = open(path).read()
    s = re.sub(r"^(\s*)fn (\$?\w+)\(\) \{", r"\1pub(crate) fn \2() {", s, flags=re.M)
    s = re.sub(r"^(\s*)mod (\$?\w+) \{", r"\1pub(crate) mod \2 {", s, flags=re.M)
    open(path, "w").write(s)


def apply(ov, lift_asm=True, log=None):
    """Apply O1..O4 to the copy at `ov`. Returns a dict describing what was done."""
    info = {"o1_modules": [], "o2_files": [], "o3_impls": [], "o4": False}

    # ---- O3 --------------------------------------------------------------
    pat = re.compile(r"^(impl(?:<[^>]*>)?\s+Step\s+for\s+[^{]+\{)[ \t]*$", re.M)
    for d, _, fs in os.walk(os.path.join(ov, "src")):
        for f in fs:
            if not f.endswith(".rs"):
                continue
            p = os.path.join(d, f)
            s = open(p).read()
            if "Step for" not in s:
                continue
            n = len(pat.findall(s))
            if n == 0:
                continue
            if "fn forward_overflowing" in s:
                continue  # tree already has them (newer upstream): nothing to shim
            s2 = pat.sub(lambda m: m.group(1) + STEP_SHIM, s)
            open(p, "w").write(s2)
            info["o3_impls"].append((os.path.relpath(p, ov), n))

    # ---- O2 --------------------------------------------------------------
    if lift_asm:
        n_sites = 0
        for d, _, fs in os.walk(os.path.join(ov, "src")):
            if "verif_" in d:
                continue
            for f in fs:
                if not f.endswith(".rs"):
                    continue
                p = os.path.join(d, f)
                s = open(p).read()
                if "asm!" not in s and "core::arch::asm" not in s:
                    continue
                s2 = s.replace("core::arch::asm", "crate::verif_isa::asm")
                # grouped import: `use core::{arch::asm, cmp, ..};`
                def ungroup(mo):
                    items = [x.strip() for x in mo.group(1).split(",") if x.strip()]
                    if "arch::asm" not in items:
                        return mo.group(0)
                    items.remove("arch::asm")
                    rest = ("use core::{" + ", ".join(items) + "};\n") if items else ""
                    return rest + "use crate::verif_isa::asm;"
                s2 = re.sub(r"use core::\{([^}]*)\};", ungroup, s2)
                # every file that invokes asm! must now resolve it to the shadow
                invocations = len(re.findall(r"(?<![A-Za-z0-9_])asm!\s*\(", s2))
                if invocations and "crate::verif_isa::asm" not in s2:
                    raise OverlayError(f"O2: {os.path.relpath(p, ov)} invokes asm! but does not name core::arch::asm")
                if s2 != s:
                    open(p, "w").write(s2)
                    info["o2_files"].append(os.path.relpath(p, ov))
                n_sites += invocations
        info["o2_sites"] = n_sites
        if n_sites == 0:
            raise OverlayError("O2: no asm! site found (unexpected tree)")
        # anything that still names the real macro would bypass the ISA model
        for d, _, fs in os.walk(os.path.join(ov, "src")):
            for f in fs:
                if f.endswith(".rs") and "verif_" not in d:
                    if re.search(r"arch::(global_)?asm", open(os.path.join(d, f)).read()):
                        raise OverlayError(f"O2: residual core::arch asm in {f}")

    # ---- O1 --------------------------------------------------------------
    decls = {}
    for d, dirs, fs in os.walk(HARNESS):
        reldir = os.path.relpath(d, HARNESS)
        if any(part.startswith("verif_") for part in reldir.split(os.sep)):
            continue  # inside a harness module directory: copied with its parent
        entries = [e for e in list(fs) + list(dirs) if e.startswith("verif_")]
        for e in sorted(entries):
            if e == "verif_isa" and not lift_asm:
                continue
            src = os.path.join(d, e)
            dst_dir = os.path.join(ov, "src", reldir) if reldir != "." else os.path.join(ov, "src")
            os.makedirs(dst_dir, exist_ok=True)
            dst = os.path.join(dst_dir, e)
            if os.path.isdir(src):
                shutil.copytree(src, dst)
                publicise(dst)
                mod = e
            else:
                if not e.endswith(".rs"):
                    continue
                shutil.copy(src, dst)
                publicise(dst)
                mod = e[:-3]
            owner = owner_module_file(ov, "" if reldir == "." else reldir)
            decls.setdefault(owner, []).append(mod)
            info["o1_modules"].append(os.path.join("src", reldir, e))
    for owner, mods in decls.items():
        with open(owner, "a") as fh:
            fh.write("\n// [verif O1] harness child modules (cfg(kani) only)\n")
            for m in mods:
                vis = "pub(crate) " if owner.endswith("lib.rs") else ""
                if owner.endswith("lib.rs"):
                    fh.write(f"#[cfg(kani)]\n#[allow(dead_code, unused)]\n{vis}mod {m};\n")
                else:
                    fh.write(f"#[cfg(kani)]\n#[allow(dead_code, unused)]\npub(crate) mod {m};\n")
    if lift_asm:
        # the macro shadow must be textually in scope before first use: declare verif_isa first in lib.rs
        lib = os.path.join(ov, "src", "lib.rs")
        s = open(lib).read()
        if "mod verif_isa;" not in s:
            raise OverlayError("O1: verif_isa not declared")

    # ---- O4 --------------------------------------------------------------
    ct = os.path.join(ov, "Cargo.toml")
    s = open(ct).read()
    if "[workspace]" not in s:
        s += "\n[workspace]\n"
    # cfg(kani) is already declared in [lints.rust]; nothing else to do
    open(ct, "w").write(s)
    info["o4"] = True
    return info


def make(tag="ov", lift_asm=True):
    """Create a fresh overlay. Returns (path, info)."""
    base = scratch_root()
    ov = os.path.join(base, f"x86_64-verif.{tag}.{os.getpid()}")
    if os.path.exists(ov):
        shutil.rmtree(ov)
    subprocess.check_call(
        ["rsync", "-a", "--exclude", "/target", "--exclude", "/.git", "--exclude", "/testing",
         "--exclude", "/MUTANT", REPO + "/", ov + "/"])
    info = apply(ov, lift_asm=lift_asm)
    info["tree_sha256"] = tree_hash(REPO)
    info["path"] = ov
    return ov, info


def remove(ov):
    shutil.rmtree(ov, ignore_errors=True)


if __name__ == "__main__":
    ov, info = make(tag=sys.argv[1] if len(sys.argv) > 1 else "manual", lift_asm="--no-asm" not in sys.argv)
    print(ov)
    for k, v in info.items():
        print(" ", k, v)
