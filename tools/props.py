"""Per-property configuration of engine K (which harnesses, bounds, stubs, assumptions)."""

import gen_c19

def _c19_pre(ov, tier, seed):
    try:
        _c19_pre.info = gen_c19.generate(ov)
    except gen_c19.GateError as e:
        import overlay
        raise overlay.OverlayError("C19 coverage gate: " + str(e))

def _c19_post(ev):
    ev["coverage"]["constants_table"] = getattr(_c19_pre, "info", {})

def K(prefix, **kw):
    d = dict(filters_quick=[prefix + "_"], filters_thorough=[prefix + "_", prefix + "t_"], jobs=8,
             harness_timeout=600, harness_timeout_thorough=3000, total_timeout=3000, total_timeout_thorough=14000,
             lift_asm=True)
    d.update(kw)
    return d

PROPS = {
    "C04": K("c04", bounds="no loop; all canonical addresses, all index tuples in 0..512^4, all u16"),
    "C05": K("c05", bounds="no loop; all canonical addresses/pages, all usize counts"),
    "C06": K("c06", bounds="no loop; all u64 addresses x all 64 power-of-two alignments (k<=47 for VirtAddr)"),
    "C08": K("c08", bounds="all raw entries / aligned addresses / flag sets; 3-step setter programs; all 512 slots (unwind 514)"),
    "C12": K("c12", extra=["-Z", "stubbing"], bounds="all 256 vectors, all u8 bound pairs of 15 range forms, all canonical handler addresses, 3-step option-setter programs (unwind 4)",
             stubs=["S-addr: VirtAddr::new -> new_unsafe in c12_load_hands_cpu_own_address only (CBMC object addresses are never canonical)"],
             trusted_base=["rustc->Kani->CBMC", "CaDiCaL", "overlay O1-O4", "ISA model (mov r,cs; lidt)"]),
    "C13": K("c13", extra=["-Z", "stubbing"], expected_panics=["General handler returned on"], jobs=12, bounds="all 256 vectors x all (lo,hi) pairs; hardware entry/return of extern \"x86-interrupt\" functions is outside (LLVM back end)",
             stubs=["S-addr: VirtAddr::new -> new_unsafe (function addresses in CBMC are not canonical)"]),
    "C19": K("c19", pre=_c19_pre, post_evidence=_c19_post,
             bounds="finite: every public constant (coverage-gated against the tree) + codecs over all u8/u16/u64 inputs",
             trusted_base=["rustc->Kani->CBMC", "CaDiCaL", "overlay O1-O4", "oracle/constants.txt (typed in from SDM/APM)"]),
    "C11": K("c11", bounds="all canonical addresses / PCIDs / kinds; broadcast: the first 3 requests of every 4KiB and 2MiB range x all processor maxima x all option combinations (unwind 5), later requests by induction on the (start,end) loop state; mapper-returned tokens are checked in C01's harnesses",
             assumptions=["a broadcast request with count c covers max(c,1) pages (the crate's own model of INVLPGB)", "CR3 bits 52-63 are zero (reserved / read as zero)"],
             trusted_base=["rustc->Kani->CBMC", "CaDiCaL", "overlay O1-O4", "ISA model (invlpg, invpcid, invlpgb, tlbsync, mov cr3)"]),
    "C20": K("c20", extra=["-Z", "stubbing"], bounds="no loop; all canonical table addresses x all CR3 x all slot contents; all 512 recursive indices x all pages of the three sizes",
             stubs=["S-addr: VirtAddr::new returns a harness-chosen symbolic canonical address for the table reference (called exactly once, asserted)"],
             trusted_base=["rustc->Kani->CBMC", "CaDiCaL", "overlay O1-O4", "ISA model (mov r,cr3)"]),
    "C14": K("c14", bounds="one append from every valid table state, MAX in {1,2,3,8,9} (unwind MAX+2); all descriptors, all u16 selectors"),
    "C15": K("c15", bounds="no loop; all 2^64 TSS addresses, all descriptor bit patterns"),
    "C16": K("c16", bounds="no loop (PAT: unwind 9); all prior register contents x all argument values; ISA model of ~35 instructions is the trusted base",
             assumptions=["architectural domain for decoders that panic on impossible raw values (SFMask/UCet/SCet/Star/Pat read are exercised after a typed write only)",
                          "Cr3::write_raw round trip only for val < 4096 (the CR3 low 12-bit field)"],
             trusted_base=["rustc->Kani->CBMC", "CaDiCaL", "overlay O1-O4", "ISA model harness/src/verif_isa (mov cr/dr/sreg, rdmsr/wrmsr, xgetbv/xsetbv, rd/wr fs/gs base, swapgs, ltr, l/s gdt/idt, pushfq/popfq, retfq, stmxcsr/ldmxcsr)"]),
    "C17": K("c17", bounds="all RFLAGS values; nesting depth <= 3 (every shape); ISA model of cli/sti/hlt/pushfq/popfq is the trusted base",
             trusted_base=["rustc->Kani->CBMC", "CaDiCaL", "overlay O1-O4", "ISA model harness/src/verif_isa (cli, sti, hlt, pushfq;pop)"]),
    "C18": K("c18", bounds="no loop; all 65536 ports x all values x 3 widths x 3 access kinds",
             trusted_base=["rustc->Kani->CBMC", "CaDiCaL", "overlay O1-O4", "ISA model harness/src/verif_isa (in/out)"]),
    "C07": K("c07", bounds="operators: all values (debug profile); ranges: one next() from every range + full iteration of ranges with <= 4 items (unwind 7)"),
    "C03": K("c03", bounds="no loop; all 2^64 (pairs: 2^128) input values; one operation per harness, closure by induction on the type invariant",
             assumptions=["inputs of composed operations satisfy the type invariant (canonical / < 2^52), which each operation is shown to preserve"]),
}
