"""Per-property configuration of engine K (which harnesses, bounds, stubs, assumptions)."""

def K(prefix, **kw):
    d = dict(filters_quick=[prefix + "_"], filters_thorough=[prefix + "_", prefix + "t_"], jobs=8,
             harness_timeout=600, harness_timeout_thorough=3000, total_timeout=3000, total_timeout_thorough=14000,
             lift_asm=False)
    d.update(kw)
    return d

PROPS = {
    "C03": K("c03", bounds="no loop; all 2^64 (pairs: 2^128) input values; one operation per harness, closure by induction on the type invariant",
             assumptions=["inputs of composed operations satisfy the type invariant (canonical / < 2^52), which each operation is shown to preserve"]),
}
