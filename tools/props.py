"""Per-property configuration of engine K (which harnesses, bounds, stubs, assumptions)."""

import gen_c19

def _c19_pre(ov, tier, seed):
    try:
        _c19_pre.info = gen_c19.generate(ov)
    except gen_c19.GateError as e:
        import overlay
        raise overlay.OverlayError("C19 coverage gate: " + str(e))

def _c19_post(ev):
    ev["coverage"]["constants_table"] = getattr(_c19_pre, "info", {})

def _c14_after(prop, tier, rc):
    return _c07_after(prop, tier, rc, gdt=True)

def _c06_after(prop, tier, rc):
    return _c07_after(prop, tier, rc, align=True)


def _c07_after(prop, tier, rc, gdt=False, align=False):
    """Engine M: release-profile semantics of the operators (C07) / state at a panic of GDT append (C14),
    from MIR (tools/mir2smt.py)."""
    import json, os, shutil, subprocess, sys, time
    verif = os.path.dirname(os.path.dirname(os.path.abspath(__file__)))
    evdir = os.environ.get("VERIF_EVIDENCE_DIR") or os.path.join(verif, "evidence")
    repdir = os.path.join(os.environ.get("VERIF_REPLAY_DIR") or os.path.join(verif, "replays"), prop)
    scratch = os.path.join(os.environ.get("VERIF_SCRATCH", "/var/tmp"), f"x86_64-verif.M.{os.getpid()}")
    t0 = time.time()
    try:
        subprocess.check_call(["rsync", "-a", "--exclude", "/target", "--exclude", "/.git", "--exclude", "/testing", os.environ.get("VERIF_REPO", "/repo") + "/", scratch + "/"])
        out = os.path.join(scratch, "m.json")
        menv = dict(os.environ, VERIF_M_MAXES=("2,3,8,16,64" if tier == "thorough" else "2,3,8"))
        p = subprocess.run(["python3-vt", os.path.join(verif, "tools", "mir2smt.py"), scratch, out] + (["--gdt"] if gdt else []) + (["--align"] if align else []), capture_output=True, text=True, timeout=3000, env=menv)
        if p.returncode != 0 or not os.path.exists(out):
            print(f"INCONCLUSIVE property={prop}: engine M failed: {p.stderr[-800:]}", flush=True)
            return rc if rc == 1 else 2
        data = json.load(open(out))
        res = data["results"]
        sys.path.insert(0, os.path.join(verif, "tools"))
        violated = [r for r in res if r["verdict"] == "violated"]
        rep = {}
        if violated:
            p2 = subprocess.run(["python3-vt", "-c", "import sys, json; sys.path.insert(0, %r); import mir2smt; d = json.load(open(%r)); print(json.dumps(mir2smt.%s(%r, d['results'])))" % (os.path.join(verif, "tools"), out, "replay_gdt" if gdt else ("replay_align" if align else "replay_release"), scratch)],
                                capture_output=True, text=True, timeout=3000)
            try:
                rep = json.loads(p2.stdout.strip().splitlines()[-1])
            except Exception:
                rep = {}
        bad_selftest = [t for t in data["selftest"] if not t["ok"]]
        # `unsupported` = the encoder does not know a MIR construct of the current tree (e.g. after a refactor): those
        # obligations are not explored (reported, listed in the evidence, no verdict); `inconclusive` = the solvers
        # disagree / time out or a counterexample does not replay, i.e. the machinery itself is in doubt
        unsupported = [r for r in res if r["verdict"] == "unsupported"]
        incon = [r for r in res if r["verdict"] == "inconclusive"]
        nviol = 0
        os.makedirs(repdir, exist_ok=True)
        for r in violated:
            rr = rep.get(r["obligation"], {})
            name = "M_" + "".join(c if c.isalnum() else "_" for c in r["obligation"])
            path = os.path.join(repdir, name + ".txt")
            if gdt:
                open(path, "w").write(f"engine M counterexample\nobligation: {r['obligation']}\nMAX = {r.get('MAX')}, len = {r.get('len')}, descriptor = ({r.get('lo', 0):#x}, {r.get('hi', 0):#x}), system = {r.get('system')}\n"
                                      f"slots = {[hex(x) for x in r.get('slots', [])]}\nnative run: {rr}\nreplay: tools/mir2smt.py replay_gdt() (catch_unwind around append on the real crate)\n")
            else:
                ret = r.get("returns")
                ret_s = ret if isinstance(ret, str) else (f"{ret:#x}" if ret is not None else "PANIC")
                open(path, "w").write(f"engine M counterexample (release profile, overflow checks off)\nobligation: {r['obligation']}\n"
                                      f"self / addr = {r['a']:#x}, rhs / align = {r['b']:#x}\nMIR model returns {ret_s}\nnative release build returned: {rr.get('returned')}\n"
                                      f"replay: tools/mir2smt.py {'replay_align' if align else 'replay_release'}() builds a binary against the real crate with `cargo run --release`\n")
            if rr.get("reproduced"):
                nviol += 1
                print(f"VIOLATION property={prop} replay={path}", flush=True)
                if gdt:
                    print(f"  engine=M obligation={r['obligation']} len={r.get('len')} native: {rr}", flush=True)
                else:
                    print(f"  engine=M obligation={r['obligation']} a={r['a']:#x} b={r['b']:#x} release build returns {rr.get('returned')}", flush=True)
            else:
                print(f"UNCONFIRMED counterexample property={prop} engine=M obligation={r['obligation']} ({rr})", flush=True)
                incon.append(r)
        for r in incon:
            print(f"INCONCLUSIVE property={prop}: engine M {r['obligation']}: {r.get('why', r['verdict'])}", flush=True)
        for r in unsupported:
            print(f"NOT-EXPLORED property={prop}: engine M cannot encode {r['obligation']}: {r.get('why')}", flush=True)
        for t in bad_selftest:
            print(f"INCONCLUSIVE property={prop}: engine M self-test failed on {t}", flush=True)
        evp = os.path.join(evdir, f"{prop}.json")
        if os.path.exists(evp):
            ev = json.load(open(evp))
            cov = ev["coverage"]
            cov["engine_M"] = dict(
                what=("rustc MIR (-C overflow-checks=off -C debug-assertions=off) of align_down / align_up / align_down_u64 / is_aligned_u64, symbolically executed path by path into QF_BV; obligation: exact rounded value for power-of-two alignments, panic exactly for non-power-of-two alignments or overflow; decided by z3 and cvc5" if align else
                      "rustc MIR of GlobalDescriptorTable::append/push symbolically executed path by path from an arbitrary valid table state (MAX in {2,3,8}); obligation: on every panicking path the table state is the initial state, and append panics exactly when the descriptor does not fit; decided by z3 and cvc5" if gdt else
                      "rustc MIR (-C overflow-checks=off -C debug-assertions=off) of the operator functions, symbolically executed path by path into QF_BV; negated exact-or-panic obligation decided by z3 and cvc5"),
                obligations=len(res), holds=sum(r["verdict"] == "holds" for r in res), violated=len(violated), inconclusive=len(incon),
                not_explored=[dict(obligation=r["obligation"], why=r.get("why")) for r in unsupported],
                solvers="z3 %s + cvc5 (must agree)" % __import__("subprocess").run(["python3-vt", "-c", "import z3;print(z3.get_version_string())"], capture_output=True, text=True).stdout.strip(),
                solver_time_s=round(sum(r.get("solver_s", 0) for r in res), 2), wall_s=round(time.time() - t0, 1),
                functions_encoded=sorted({f for r in res for f in r.get("functions", [])}),
                selftest=data["selftest"], mir_functions=data["mir_functions"],
                results=[dict(obligation=r["obligation"], verdict=r["verdict"], paths=r.get("paths"), z3=r.get("z3"), cvc5=r.get("cvc5")) for r in res],
                bounds=("all slot contents, lengths and descriptor words; MAX in {2,3,8}; Descriptor::dpl and SegmentSelector::new opaque" if gdt else "none (all 2^64 x 2^64 operand values, three page sizes)"))
            cov["evaluations"] += len(res)
            cov["obligations"] += len(res)
            cov["discharged"] += sum(r["verdict"] == "holds" for r in res)
            cov["distinct_nontrivial"] += len(res)
            cov["samples"].append(dict(engine="M", obligation=res[0]["obligation"], verdict=res[0]["verdict"], paths=res[0].get("paths")))
            ev["violations"] = ev.get("violations", 0) + nviol
            ev["wall_s"] = round(ev["wall_s"] + time.time() - t0, 2)
            json.dump(ev, open(evp, "w"), indent=1)
        print(f"{prop} {tier}: engine M {len(res)} obligations, {sum(r['verdict']=='holds' for r in res)} hold, {nviol} violations, {len(incon)} inconclusive, {len(unsupported)} not explored, {time.time()-t0:.0f}s", flush=True)
        if nviol:
            return 1
        if (incon or bad_selftest) and rc == 0:
            return 2
        return rc
    finally:
        shutil.rmtree(scratch, ignore_errors=True)


def K(prefix, **kw):
    d = dict(filters_quick=[prefix + "_"], filters_thorough=[prefix + "_", prefix + "t_"], jobs=8,
             harness_timeout=1200, harness_timeout_thorough=3000, total_timeout=7200, total_timeout_thorough=28000,
             lift_asm=True)
    d.update(kw)
    return d

_PT = dict(extra=["-Z", "stubbing", "-Z", "unstable-options", "--cbmc-args", "--max-field-sensitivity-array-size", "512"],
           own_labels_only=True, jobs=14, mem_gb=16, harness_timeout=1200,
           stubs=["S-zero: PageTable::zero -> whole-table assignment (the real zero() is verified in C08); native replays run the real one",
                  "S-ptr (ptr_*_nr only): VirtAddr::as_ptr -> 4-level hardware walk of the pool for the accessed virtual address (software MMU)",
                  "S-ptr-offset (pt_off_*_nr only): VirtAddr::as_ptr -> the pool table whose physical address is (address - OFFSET_BASE), anything else is a stray access"],
           trusted_base=["rustc->Kani->CBMC", "CaDiCaL", "overlay O1-O4", "hw_walk oracle (harness/src/structures/paging/mapper/verif_mapper/mod.rs, from SDM vol.3A 4.5)"],
           assumptions=["regime R2- (DESIGN.md 3.5): virtual addresses, which path slots are links, the flags of existing parent entries, the parent_table_flags argument and the allocator failure position are CONCRETE per harness instance (boundary menu); symbolic: contents of the entry that ends the path, all neighbouring entries, stale bytes of free frames, the frame and leaf-flags arguments",
                        "pre-states satisfy the well-formedness invariant WF (tree-shaped hierarchy of pool frames, leaf/parent entries zero or PRESENT, huge leaves size-aligned, leaf frames outside the pool)",
                        "leaf flags are drawn from bits 0-11 and 52-63 (bit 12 = PAT of huge leaves is excluded, see known finding F3)",
                        "MappedPageTable with a pool frame mapping (natively replayable) and RecursivePageTable through the S-ptr stub = software MMU over the pool (CBMC-only, `_nr`); OffsetPageTable (every trait method is an explicit delegation) through the S-ptr-offset stub with one concrete physical-memory offset (CBMC-only, `_nr`); its pointer computation `offset + frame` is decided for all values in c09_offset_*"])

def PT(prop, own, **kw):
    d = K(own, **_PT)
    # clean_up harnesses carry VP[C01] (translations preserved) and VP[C09] (only table frames touched) obligations too
    extra_q = {"C01": ["c10_range_p1_unaligned_window"], "C09": ["c10_range_two_p3_slots_huge3", "c10_rec_range_two_p3_slots_huge3"]}.get(prop, [])
    extra_t = {"C01": ["c10_", "c10t_"], "C09": ["c10_", "c10t_"]}.get(prop, [])
    d["filters_quick"] = ["pt_", "ptr_", "ptq_", own + "_"] + extra_q
    d["filters_thorough"] = ["pt_", "ptt_", "ptr_", "ptrt_", "ptq_", "ptqt_", own + "_", own + "t_"] + extra_t
    d.update(kw)
    return d

PROPS = {
    "C01": PT("C01", "c01", bounds="one mapper call (map_to_with_table_flags / map_to / identity_map / unmap / update_flags / set_flags_p4,p3,p2_entry / translate, translate_addr, translate_page; 3 page sizes) from every pre-state of about 290 (quick) / 1500 (thorough) concrete-skeleton instances x all symbolic contents, for MappedPageTable, RecursivePageTable and OffsetPageTable; 2-4 call sequences (map-unmap-remap, huge page shadows small page, map-update-unmap, map-unmap-clean_up); pool of 8 table frames; histories beyond that only by induction on WF over the instance family (not for all addresses); clean_up preservation via the C10 instances"),
    "C02": PT("C02", "c02", bounds="as C01; every allocator failure position (0..3) is its own instance"),
    "C10": dict(K("c10", **_PT), own_labels_only=True, jobs=6, mem_gb=24, harness_timeout=2400, harness_timeout_thorough=5400, total_timeout=9000,
                bounds="MappedPageTable: 4 (quick) / 15 (thorough), RecursivePageTable: 1 / 4 concrete skeleton x range instances (<= 2 populated entries per table, <= 7 tables), symbolic leaf contents decide which tables are empty; loops fully unrolled (unwind 514)",
                assumptions=["regime R2- as C01 (concrete skeleton, symbolic level-1 leaves)", "RecursivePageTable::clean_up through the S-ptr stub (software MMU), `_nr`; the recursive slot must stay untouched and nothing reached through it may be freed"]),
    "C09": PT("C09", "c09", bounds="as C01; frame rule on 24 witness slots per instance (every written slot, neighbours, slots 0/511 of free frames)"),
    "C04": K("c04", bounds="no loop; all canonical addresses, all index tuples in 0..512^4, all u16"),
    "C05": K("c05", bounds="no loop; all canonical addresses/pages, all usize counts"),
    "C06": K("c06", after=_c06_after, engine="K+M", technique="solver-based: Kani/CBMC bounded model checking + own MIR->SMT encoder (z3/cvc5) for the release-profile semantics of the alignment helpers", bounds="no loop; all u64 addresses x all 64 power-of-two alignments (k<=47 for VirtAddr)"),
    "C08": K("c08", bounds="all raw entries / aligned addresses / flag sets; 3-step setter programs; all 512 slots (unwind 514)"),
    "C12": K("c12", extra=["-Z", "stubbing"], bounds="all 256 vectors, all u8 bound pairs of 15 range forms, all canonical handler addresses, 3-step option-setter programs (unwind 4)",
             stubs=["S-addr: VirtAddr::new -> new_unsafe in c12_load_hands_cpu_own_address only (CBMC object addresses are never canonical)"],
             trusted_base=["rustc->Kani->CBMC", "CaDiCaL", "overlay O1-O4", "ISA model (mov r,cs; lidt)"]),
    "C13": K("c13", extra=["-Z", "stubbing"], expected_panics=["General handler returned on"], jobs=14, bounds="all 256 vectors x all (lo,hi) pairs; hardware entry/return of extern \"x86-interrupt\" functions is outside (LLVM back end)",
             stubs=["S-addr: VirtAddr::new -> new_unsafe (function addresses in CBMC are not canonical)"]),
    "C19": K("c19", pre=_c19_pre, post_evidence=_c19_post,
             bounds="finite: every public constant (coverage-gated against the tree) + codecs over all u8/u16/u64 inputs",
             trusted_base=["rustc->Kani->CBMC", "CaDiCaL", "overlay O1-O4", "oracle/constants.txt (typed in from SDM/APM)"]),
    "C11": K("c11", bounds="all canonical addresses / PCIDs / kinds; broadcast: the first 3 requests of every 4KiB and 2MiB range x all processor maxima x all option combinations (unwind 5), later requests by induction on the (start,end) loop state; mapper-returned tokens are checked in C01's harnesses",
             assumptions=["a broadcast request with count c covers max(c,1) pages (the crate's own model of INVLPGB)", "CR3 bits 52-63 are zero (reserved / read as zero)"],
             trusted_base=["rustc->Kani->CBMC", "CaDiCaL", "overlay O1-O4", "ISA model (invlpg, invpcid, invlpgb, tlbsync, mov cr3)"]),
    "C20": K("c20", extra=["-Z", "stubbing"], bounds="no loop; all canonical table addresses x all CR3 x all slot contents; all 512 recursive indices x all pages of the three sizes",
             stubs=["S-addr: VirtAddr::new returns a harness-chosen symbolic canonical address for the table reference (called exactly once, asserted)"],
             trusted_base=["rustc->Kani->CBMC", "CaDiCaL", "overlay O1-O4", "ISA model (mov r,cr3)"]),
    "C14": K("c14", extra=["-Z", "stubbing"], stubs=["S-addr (c14_load only): VirtAddr::new -> new_unsafe (CBMC object addresses are not canonical)"], after=_c14_after, engine="K+M", technique="solver-based: Kani/CBMC bounded model checking + own MIR->SMT encoder (z3/cvc5) for the table state at a refused append", bounds="one append from every valid table state, MAX in {1,2,3,8,9} (unwind MAX+2); all descriptors, all u16 selectors"),
    "C15": K("c15", bounds="no loop; all 2^64 TSS addresses, all descriptor bit patterns"),
    "C16": K("c16", bounds="no loop (PAT: unwind 9); all prior register contents x all argument values; ISA model of ~35 instructions is the trusted base",
             assumptions=["architectural domain for decoders that panic on impossible raw values (SFMask/UCet/SCet/Star/Pat read are exercised after a typed write only)",
                          "Cr3::write_raw round trip only for val < 4096 (the CR3 low 12-bit field)"],
             trusted_base=["rustc->Kani->CBMC", "CaDiCaL", "overlay O1-O4", "ISA model harness/src/verif_isa (mov cr/dr/sreg, rdmsr/wrmsr, xgetbv/xsetbv, rd/wr fs/gs base, swapgs, ltr, l/s gdt/idt, pushfq/popfq, retfq, stmxcsr/ldmxcsr)"]),
    "C17": K("c17", bounds="all RFLAGS values; nesting depth <= 3 (every shape); ISA model of cli/sti/hlt/pushfq/popfq is the trusted base",
             trusted_base=["rustc->Kani->CBMC", "CaDiCaL", "overlay O1-O4", "ISA model harness/src/verif_isa (cli, sti, hlt, pushfq;pop)"]),
    "C18": K("c18", bounds="no loop; all 65536 ports x all values x 3 widths x 3 access kinds",
             trusted_base=["rustc->Kani->CBMC", "CaDiCaL", "overlay O1-O4", "ISA model harness/src/verif_isa (in/out)"]),
    "C07": K("c07", after=_c07_after, engine="K+M", technique="solver-based: Kani/CBMC bounded model checking (debug profile, ranges) + own MIR->SMT encoder decided by z3/cvc5 (release profile)", bounds="operators: all values (debug profile); ranges: one next() from every range + full iteration of ranges with <= 4 items (unwind 7)"),
    "C03": K("c03", bounds="no loop; all 2^64 (pairs: 2^128) input values; one operation per harness, closure by induction on the type invariant",
             assumptions=["inputs of composed operations satisfy the type invariant (canonical / < 2^52), which each operation is shown to preserve"]),
}
