#!/usr/bin/env python3
"""Regenerate /verif/MANIFEST.json from tools/props.py (single source of truth)."""
import json, os, sys
HERE = os.path.dirname(os.path.abspath(__file__))
sys.path.insert(0, HERE)
import props
VERIF = os.path.dirname(HERE)
ids = [json.loads(l)["id"] for l in open(os.path.join(VERIF, "properties.jsonl"))]
checks, na = [], []
for pid in ids:
    cfg = props.PROPS.get(pid)
    if not cfg or cfg.get("not_applicable"):
        na.append(dict(property_id=pid, reason=(cfg or {}).get("not_applicable", "check not built yet (work in progress this round); no claim is made")))
        continue
    checks.append(dict(
        property_id=pid,
        quick_cmd=f"./check {pid} quick",
        thorough_cmd=f"./check {pid} thorough",
        evidence_file=f"/verif/evidence/{pid}.json",
        replay_cmd_template=f"./check {pid} --replay {{path}}",
        engine=cfg.get("engine", "K"),
        level_claimed=dict(category="model_checking",
                           text=cfg.get("level_text", "Bounded model checking of the real code: the harnesses are compiled by Kani from an overlay of /repo's working tree and every obligation is decided by CBMC/CaDiCaL for all values of the symbolic inputs within the stated bounds (unwinding assertions on); a counterexample is replayed natively before it is reported."),
                           design_ref=cfg.get("design_ref", "DESIGN.md section 4 / " + pid)),
        level_note=cfg.get("level_note", "") or (
            "Bounds: " + cfg.get("bounds", "") + ". "
            + ("Assumptions: " + "; ".join(cfg["assumptions"]) + ". " if cfg.get("assumptions") else "")
            + ("Stubs: " + "; ".join(cfg["stubs"]) + ". " if cfg.get("stubs") else "")
            + "Trusted base: " + "; ".join(cfg.get("trusted_base", ["rustc->Kani->CBMC translation", "CaDiCaL", "overlay edits O1-O4 (DESIGN.md 2.1)"]))
            + "; one configuration (default features, x86_64). Counterexamples are replayed natively before they are reported, except for `_nr` harnesses (DESIGN.md 0a.3)."),
        technique=cfg.get("technique", "solver-based bounded model checking (Kani/CBMC SAT) of the real code"),
    ))
man = dict(
    version=1,
    setup_cmd="./setup.sh",
    hooks=dict(guard="cfg(kani)", enable="no hooks are committed to /repo: harness modules are added to a scratch overlay copy of /repo's working tree (tools/overlay.py, DESIGN.md 2.1) and compiled only by Kani, which sets cfg(kani)",
               baseline_off_cmd="cd /repo && cargo test --workspace --no-fail-fast --offline",
               source_commits=[], add_only=True),
    engines=[dict(name="K", path="/verif/tools/kani_run.py", serves_properties=[c["property_id"] for c in checks if c["engine"] in ("K", "K+M")],
                  kind_free_text="Kani 0.68 / CBMC 6.11 bounded model checking of harness modules overlaid on the real crate"),
             dict(name="M", path="/verif/tools/mir2smt.py", serves_properties=[c["property_id"] for c in checks if "M" in c["engine"]],
                  kind_free_text="own MIR->SMT-LIB encoder (release-profile integer semantics), z3 + cvc5")],
    checks=checks,
    not_applicable=na,
    notes="See DESIGN.md. Exit codes: 0 held, 1 VIOLATION, 2 inconclusive (never a pass).",
)
json.dump(man, open(os.path.join(VERIF, "MANIFEST.json"), "w"), indent=1)
print(f"{len(checks)} checks, {len(na)} not_applicable")
