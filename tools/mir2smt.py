#!/usr/local/bin/python3-vt
"""Engine M: symbolic execution of rustc MIR (dumped with overflow checks OFF = release semantics)
into QF_BV and decision by z3 (cross-checked with cvc5).

Scope: the loop-free integer operator functions of C07 (`+`, `-`, `+=`, `-=` on VirtAddr, PhysAddr,
Page<S>, PhysFrame<S>) and everything they call inside the crate.  A construct the encoder does not
know makes that obligation `unsupported` (inconclusive), never a pass.

usage: mir2smt.py <scratch-copy-of-repo> <out.json>
"""
import json
import os
import re
import subprocess
import sys
import time

import z3

BV64 = lambda v: z3.BitVecVal(v, 64)


class Unsupported(Exception):
    pass


class Panic(Exception):
    def __init__(self, msg, env=None):
        self.msg = msg
        self.env = env  # state (heap cells) at the moment of the panic


# ----------------------------------------------------------------------------------------------- values
class Struct:
    def __init__(self, name, fields):
        self.name, self.fields = name, fields

    def __repr__(self):
        return f"{self.name}{self.fields}"


class Enum:
    """discr: python int (concrete on every path, we fork on switchInt), payload: list"""

    def __init__(self, ty, variant, payload):
        self.ty, self.variant, self.payload = ty, variant, payload


class Ref:
    """reference to a heap cell (cells live in env under keys starting with '@') plus a field path"""

    def __init__(self, key, path=()):
        self.key, self.path = key, tuple(path)


class Array:
    def __init__(self, elems):
        self.elems = list(elems)


def deep_get(v, path):
    for k in path:
        v = v.fields[k]
    return v


def deep_set(v, path, new):
    if not path:
        return new
    f = list(v.fields)
    f[path[0]] = deep_set(f[path[0]], path[1:], new)
    return Struct(v.name, f)


UNIT = ("unit",)


def width_of(ty):
    m = re.fullmatch(r"([ui])(8|16|32|64|128|size)", ty.strip())
    if not m:
        return None
    return 64 if m.group(2) == "size" else int(m.group(2))


def signed(ty):
    return ty.strip().startswith("i")


# ----------------------------------------------------------------------------------------------- parser
class Fn:
    def __init__(self, header, body, src_root):
        self.header = header
        self.body = body
        m = re.match(r"fn (.*?)\((.*)\) -> (.*) \{$", header)
        if not m:
            raise Unsupported("header " + header)
        self.path, params, self.ret = m.group(1), m.group(2), m.group(3)
        self.params = []
        for p in split_top(params):
            if p.strip():
                n, t = p.split(":", 1)
                self.params.append((n.strip(), t.strip()))
        self.locals = dict(self.params)
        self.locals["_0"] = self.ret
        for lm in re.finditer(r"^\s*let (?:mut )?(_\d+): (.*);$", body, re.M):
            self.locals[lm.group(1)] = lm.group(2)
        self.blocks = {}
        for bm in re.finditer(r"^\s*(bb\d+)(?: \(cleanup\))?: \{\n(.*?)\n\s*\}$", body, re.M | re.S):
            lines = [l.strip() for l in bm.group(2).split("\n") if l.strip()]
            self.blocks[bm.group(1)] = lines
        # key for call resolution
        self.key = self.resolve_key(src_root)

    def resolve_key(self, src_root):
        m = re.match(r"(?:.*?)<impl at (src/[^:]+):(\d+):\d+: \d+:\d+>::(\w+)$", self.path)
        if m:
            line = open(os.path.join(src_root, m.group(1))).read().split("\n")[int(m.group(2)) - 1]
            im = re.match(r"\s*(?:unsafe )?impl(?:<[^>]*>)?\s+(?:(.+?)\s+for\s+)?([\w:]+)", line)
            if not im:
                return None
            trait = im.group(1)
            self_ty = im.group(2).split("::")[-1]
            if trait:
                trait = trait.replace(" ", "")
            return (self_ty, trait, m.group(3))
        if re.fullmatch(r"\w+", self.path):
            return (None, None, self.path)
        return None


def split_top(s):
    out, depth, cur = [], 0, ""
    for ch in s:
        if ch in "<([{":
            depth += 1
        elif ch in ">)]}":
            depth -= 1
        if ch == "," and depth == 0:
            out.append(cur)
            cur = ""
        else:
            cur += ch
    if cur.strip():
        out.append(cur)
    return out


def parse_mir(text, src_root):
    fns = {}
    chunks = re.split(r"\n(?=fn |// MIR FOR CTFE\nfn )", text)
    for c in chunks:
        if c.startswith("// MIR FOR CTFE") or not c.startswith("fn "):
            continue
        header, _, body = c.partition("\n")
        try:
            f = Fn(header, body, src_root)
        except Unsupported:
            continue
        if f.key and f.key not in fns:
            fns[f.key] = f
    return fns


# ----------------------------------------------------------------------------------------------- interpreter
class Interp:
    def __init__(self, fns, size_const):
        self.fns = fns
        self.size = size_const  # value of <S as PageSize>::SIZE for this instantiation
        self.solver = z3.Solver()
        self.encoded = set()

    # ---- call resolution
    def resolve(self, callee):
        callee = callee.strip()
        m = re.match(r"<(.+?) as (.+)>::(\w+)$", callee)
        if m:
            self_ty = re.sub(r"<.*>", "", m.group(1)).split("::")[-1]
            trait = m.group(2).replace(" ", "").split("::")[-1]
            if "<" not in trait and trait in ("Add", "Sub"):
                trait = f"{trait}<{self_ty}>"
            cands = [k for k in self.fns if k[0] == self_ty and k[2] == m.group(3) and k[1] and self.trait_eq(k[1], trait, self_ty)]
            if len(cands) == 1:
                return self.fns[cands[0]]
            return None
        parts = re.sub(r"::<[^>]*>", "", callee).split("::")
        if len(parts) >= 2:
            k = (parts[-2], None, parts[-1])
            if k in self.fns:
                return self.fns[k]
        k = (None, None, parts[-1])
        return self.fns.get(k)

    @staticmethod
    def trait_eq(impl_trait, call_trait, self_ty):
        a = impl_trait.split("::")[-1].replace("Self", self_ty)
        b = call_trait.replace("Self", self_ty)
        a = re.sub(r"<(\w+)<\w+>>", r"<\1>", a)  # Sub<PhysFrame<S>> -> Sub<PhysFrame>
        b = re.sub(r"<(\w+)<\w+>>", r"<\1>", b)
        return a == b

    # ---- operands
    def const(self, text, ty_hint=None):
        text = text.strip()
        if "PageSize>::SIZE" in text:
            return BV64(self.size)
        if text == "MAX":
            return BV64(self.size)
        m = re.fullmatch(r"(-?\d+)_([ui](?:8|16|32|64|128|size))", text)
        if m:
            w = width_of(m.group(2))
            return z3.BitVecVal(int(m.group(1)), w)
        if text in ("true", "false"):
            return z3.BoolVal(text == "true")
        if text.startswith("ZeroSized") or text == "()":
            return UNIT
        if text.startswith('"'):
            return ("str", text)
        raise Unsupported("const " + text)

    def parse_place(self, place):
        """-> (root local, [projection...]) ; projections: ('deref',), ('field', k), ('downcast', V), ('index', local)"""
        place = place.strip()
        m = re.fullmatch(r"(.+)\[(_\d+)\]", place)
        if m and self.balanced(m.group(1)):
            root, proj = self.parse_place(m.group(1))
            return root, proj + [("index", m.group(2))]
        if re.fullmatch(r"_\d+", place):
            return place, []
        m = re.fullmatch(r"\(\*(.+)\)", place)
        if m and self.balanced(m.group(1)):
            root, proj = self.parse_place(m.group(1))
            return root, proj + [("deref",)]
        m = re.fullmatch(r"\((.+) as (\w+)\)", place)
        if m and self.balanced(m.group(1)):
            root, proj = self.parse_place(m.group(1))
            return root, proj + [("downcast", m.group(2))]
        m = re.fullmatch(r"\((.+)\.(\d+): .*\)", place)
        if m:
            # the field type may contain parentheses; find the split point by balance
            inner = place[1:-1]
            depth = 0
            for i, ch in enumerate(inner):
                if ch in "([<":
                    depth += 1
                elif ch in ")]>":
                    depth -= 1
                elif ch == "." and depth == 0 and re.match(r"\.\d+: ", inner[i:]):
                    k = int(re.match(r"\.(\d+): ", inner[i:]).group(1))
                    root, proj = self.parse_place(inner[:i])
                    return root, proj + [("field", k)]
        raise Unsupported("place " + place)

    @staticmethod
    def balanced(t):
        d = 0
        for ch in t:
            if ch in "([":
                d += 1
            elif ch in ")]":
                d -= 1
                if d < 0:
                    return False
        return d == 0

    def place_get(self, env, place):
        root, proj = self.parse_place(place)
        if root not in env:
            raise Unsupported("uninitialised local " + root)
        v = env[root]
        for pr in proj:
            if pr[0] == "deref":
                if not isinstance(v, Ref):
                    raise Unsupported("deref of non-ref")
                v = deep_get(env[v.key], v.path)
            elif pr[0] == "field":
                if isinstance(v, Struct):
                    v = v.fields[pr[1]]
                elif isinstance(v, Enum):
                    v = v.payload[pr[1]]
                else:
                    raise Unsupported("field of " + repr(v))
            elif pr[0] == "downcast":
                if not isinstance(v, Enum) or v.variant != pr[1]:
                    raise Unsupported("downcast mismatch")
            elif pr[0] == "index":
                i = env[pr[1]]
                if not isinstance(v, Array):
                    raise Unsupported("index of non-array")
                r = v.elems[-1]
                for n in range(len(v.elems) - 2, -1, -1):
                    r = self.ite(i == z3.BitVecVal(n, i.size()), v.elems[n], r)
                v = r
        return v

    def ite(self, c, a, b):
        if isinstance(a, Struct):
            return Struct(a.name, [self.ite(c, x, y) for x, y in zip(a.fields, b.fields)])
        if a is UNIT:
            return a
        return z3.If(c, a, b)

    def place_set(self, env, place, v):
        root, proj = self.parse_place(place)
        if not proj:
            env[root] = v
            return
        # write through: compute the new value of the outermost container functionally
        def upd(cur, proj):
            if not proj:
                return v
            pr = proj[0]
            if pr[0] == "field":
                f = list(cur.fields)
                f[pr[1]] = upd(f[pr[1]], proj[1:])
                return Struct(cur.name, f)
            if pr[0] == "index":
                i = env[pr[1]]
                out = []
                for n, e in enumerate(cur.elems):
                    out.append(self.ite(i == z3.BitVecVal(n, i.size()), upd(e, proj[1:]), e))
                return Array(out)
            raise Unsupported("store projection " + str(pr))
        if proj[0][0] == "deref":
            r = env[root]
            if not isinstance(r, Ref):
                raise Unsupported("store through non-ref")
            cell = env[r.key]
            inner = deep_get(cell, r.path)
            env[r.key] = deep_set(cell, r.path, upd(inner, proj[1:]))
            return
        env[root] = upd(env[root], proj)

    def operand(self, env, text):
        text = text.strip()
        if text.startswith("const "):
            return self.const(text[6:])
        if text.startswith("copy ") or text.startswith("move "):
            return self.place_get(env, text[5:])
        raise Unsupported("operand " + text)

    # ---- rvalues
    def binop(self, op, a, b, ty):
        s = signed(ty) if ty else False
        if op in ("Shl", "Shr"):
            # shift amount may have another width
            if b.size() != a.size():
                b = z3.ZeroExt(a.size() - b.size(), b) if b.size() < a.size() else z3.Extract(a.size() - 1, 0, b)
            b = b & (a.size() - 1)  # release: masked shift
            return a << b if op == "Shl" else (a >> b if s else z3.LShR(a, b))
        table = {
            "Add": lambda: a + b, "Sub": lambda: a - b, "Mul": lambda: a * b,
            "BitAnd": lambda: a & b, "BitOr": lambda: a | b, "BitXor": lambda: a ^ b,
            "Div": lambda: (a / b) if s else z3.UDiv(a, b), "Rem": lambda: z3.SRem(a, b) if s else z3.URem(a, b),
            "Eq": lambda: a == b, "Ne": lambda: a != b,
            "Lt": lambda: (a < b) if s else z3.ULT(a, b), "Le": lambda: (a <= b) if s else z3.ULE(a, b),
            "Gt": lambda: (a > b) if s else z3.UGT(a, b), "Ge": lambda: (a >= b) if s else z3.UGE(a, b),
        }
        if op not in table:
            raise Unsupported("binop " + op)
        return table[op]()

    def rvalue(self, env, fn, dst, text):
        text = text.strip()
        m = re.fullmatch(r"(\w+)\((.+), (.+)\)", text)
        if m and m.group(1) in ("Add", "Sub", "Mul", "BitAnd", "BitOr", "BitXor", "Shl", "Shr", "Eq", "Ne", "Lt", "Le", "Gt", "Ge", "Div", "Rem"):
            a, b = self.operand(env, m.group(2)), self.operand(env, m.group(3))
            # operand type: from the first operand's local type when available
            lt = None
            lm = re.search(r"(_\d+)", m.group(2))
            if lm:
                lt = fn.locals.get(lm.group(1))
            if lt is None or width_of(lt) is None:
                lt = "i64" if False else "u64"
            return self.binop(m.group(1), a, b, lt)
        m = re.fullmatch(r"Not\((.+)\)", text)
        if m:
            v = self.operand(env, m.group(1))
            return z3.Not(v) if z3.is_bool(v) else ~v
        m = re.fullmatch(r"Neg\((.+)\)", text)
        if m:
            return -self.operand(env, m.group(1))
        m = re.fullmatch(r"(.+) as ([ui]\w+) \(IntToInt\)", text)
        if m:
            v = self.operand(env, m.group(1))
            w = width_of(m.group(2))
            src_local = re.search(r"(_\d+)", m.group(1))
            src_ty = fn.locals.get(src_local.group(1)) if src_local else "u64"
            if z3.is_bool(v):
                v = z3.If(v, z3.BitVecVal(1, 8), z3.BitVecVal(0, 8))
                src_ty = "u8"
            if w == v.size():
                return v
            if w < v.size():
                return z3.Extract(w - 1, 0, v)
            return z3.SignExt(w - v.size(), v) if signed(src_ty) else z3.ZeroExt(w - v.size(), v)
        m = re.fullmatch(r"discriminant\((.+)\)", text)
        if m:
            e = self.place_get(env, m.group(1))
            if isinstance(e, Enum):
                return ("discr", {"Ok": 0, "Err": 1, "None": 0, "Some": 1, "UserSegment": 0, "SystemSegment": 1}[e.variant])
            raise Unsupported("discriminant of non-enum")
        m = re.fullmatch(r"&(?:mut |raw const |raw mut )?(.+)", text)
        if m and not text.startswith("&&"):
            root, proj = self.parse_place(m.group(1))
            if proj and proj[0][0] == "deref" and isinstance(env.get(root), Ref):
                r = env[root]
                path = list(r.path)
                for pr in proj[1:]:
                    if pr[0] != "field":
                        raise Unsupported("reference to " + text)
                    path.append(pr[1])
                return Ref(r.key, path)
            raise Unsupported("reference to " + text)
        m = re.fullmatch(r"(.+) as &\[.*\] \(PointerCoercion\(Unsize.*\)\)", text)
        if m:
            return self.operand(env, m.group(1))
        m = re.fullmatch(r"PtrMetadata\((.+)\)", text)
        if m:
            r = self.operand(env, m.group(1))
            if isinstance(r, Ref):
                arr = deep_get(env[r.key], r.path)
                if isinstance(arr, Array):
                    return BV64(len(arr.elems))
            raise Unsupported("PtrMetadata")
        # enum constructors
        m = re.fullmatch(r"(?:core::result::)?Result::<.*>::(Ok|Err)\((.+)\)", text)
        if m:
            return Enum("Result", m.group(1), [self.operand(env, m.group(2))])
        m = re.fullmatch(r"(?:core::option::)?Option::<.*>::Some\((.+)\)", text)
        if m:
            return Enum("Option", "Some", [self.operand(env, m.group(1))])
        if re.fullmatch(r"(?:core::option::)?Option::<.*>::None", text):
            return Enum("Option", "None", [])
        # struct literal with named fields
        m = re.fullmatch(r"([\w:]+)(?:::<[^>]*>)? \{ (.+) \}", text)
        if m:
            fields = [self.operand(env, f.split(":", 1)[1]) for f in split_top(m.group(2))]
            return Struct(m.group(1).split("::")[-1], fields)
        # tuple struct
        m = re.fullmatch(r"([A-Za-z_][\w:]*)\((.+)\)", text)
        if m and m.group(1).split("::")[-1][0].isupper():
            return Struct(m.group(1).split("::")[-1], [self.operand(env, f) for f in split_top(m.group(2))])
        if text.startswith("copy ") or text.startswith("move ") or text.startswith("const "):
            return self.operand(env, text)
        raise Unsupported("rvalue " + text)

    # ---- intrinsics of core used by these functions
    def intrinsic(self, callee, args, pc):
        name = callee.split("::")[-1]
        if "checked_sub" in name:
            a, b = args
            return [(z3.UGE(a, b), Enum("Option", "Some", [a - b])), (z3.ULT(a, b), Enum("Option", "None", []))]
        if "checked_add" in name:
            a, b = args
            ok = z3.UGE(a + b, a)  # no carry out of bit 63
            return [(ok, Enum("Option", "Some", [a + b])), (z3.Not(ok), Enum("Option", "None", []))]
        if "checked_mul" in name:
            a, b = args
            ok = z3.Extract(127, 64, z3.ZeroExt(64, a) * z3.ZeroExt(64, b)) == 0  # 128-bit product fits
            return [(ok, Enum("Option", "Some", [a * b])), (z3.Not(ok), Enum("Option", "None", []))]
        if "saturating_sub" in name:
            a, b = args
            return [(z3.BoolVal(True), z3.If(z3.UGE(a, b), a - b, z3.BitVecVal(0, a.size())))]
        if callee.endswith("]>::len") or re.search(r"slice::<impl \[.*\]>::len$", callee):
            r = args[0]
            return None if not isinstance(r, Ref) else [(z3.BoolVal(True), BV64(len(deep_get(self.cur_env[r.key], r.path).elems)))]
        if callee.endswith("gdt::Entry::new") or callee.endswith("Entry::new"):
            return [(z3.BoolVal(True), Struct("Entry", [args[0]]))]
        if callee.endswith("Descriptor::dpl"):
            # pure function of the descriptor (decided for all bit patterns in C15): opaque here
            return [(z3.BoolVal(True), z3.BitVec("dpl_opaque", 8))]
        if callee.endswith("SegmentSelector::new"):
            return [(z3.BoolVal(True), Struct("SegmentSelector", [z3.BitVec("sel_opaque", 16)]))]
        if "is_power_of_two" in name:
            a = args[0]
            p = z3.And(a != 0, (a & (a - 1)) == 0)
            return [(p, z3.BoolVal(True)), (z3.Not(p), z3.BoolVal(False))]
        if re.search(r"Option::<.*>::(unwrap|expect)$", callee) or name in ("unwrap", "expect") and "Option" in callee:
            e = args[0]
            if not isinstance(e, Enum):
                raise Unsupported("unwrap of non-enum")
            if e.variant == "Some":
                return [(z3.BoolVal(True), e.payload[0])]
            return [(z3.BoolVal(True), Panic("unwrap on None"))]
        if re.search(r"Result::<.*>::(unwrap|expect)$", callee):
            e = args[0]
            if e.variant == "Ok":
                return [(z3.BoolVal(True), e.payload[0])]
            return [(z3.BoolVal(True), Panic("unwrap on Err"))]
        return None

    # ---- execution: returns list of (path condition, outcome) ; outcome = value | Panic
    def feasible(self, pc):
        self.solver.push()
        self.solver.add(pc)
        r = self.solver.check()
        self.solver.pop()
        return r != z3.unsat

    def call(self, fn, args, pc, depth=0, heap=None):
        if depth > 12:
            raise Unsupported("call depth")
        self.encoded.add(fn.path)
        env = dict(heap or {})
        for (n, _t), a in zip(fn.params, args):
            env[n] = a
        return self.run(fn, env, "bb0", pc, depth)

    def run(self, fn, env, bb, pc, depth):
        visited = 0
        while True:
            visited += 1
            if visited > 200:
                raise Unsupported("loop (back edge) in " + fn.path)
            lines = fn.blocks[bb]
            for ln in lines[:-1]:
                self.statement(fn, env, ln)
            term = lines[-1]
            if term == "return;":
                return [(pc, env.get("_0", UNIT), self.heap_of(env))]
            if term == "unreachable;":
                return []
            m = re.fullmatch(r"goto -> (bb\d+);", term)
            if m:
                bb = m.group(1)
                continue
            m = re.fullmatch(r"switchInt\((.+)\) -> \[(.+)\];", term)
            if m:
                v = self.operand(env, m.group(1))
                targets = [t.strip() for t in m.group(2).split(",")]
                out = []
                if isinstance(v, tuple) and v[0] == "discr":
                    chosen = None
                    for t in targets:
                        k, b = t.split(": ")
                        if k != "otherwise" and int(k) == v[1]:
                            chosen = b
                    if chosen is None:
                        chosen = [t.split(": ")[1] for t in targets if t.startswith("otherwise")][0]
                    return self.run(fn, dict(env), chosen, pc, depth)
                others = []
                for t in targets:
                    k, b = t.split(": ")
                    if k == "otherwise":
                        cond = z3.And(*[z3.Not(c) for c in others]) if others else z3.BoolVal(True)
                    else:
                        if z3.is_bool(v):
                            cond = (v == z3.BoolVal(int(k) != 0))
                        else:
                            cond = (v == z3.BitVecVal(int(k), v.size()))
                        others.append(cond)
                    npc = z3.And(pc, cond)
                    if self.feasible(npc):
                        out += self.run(fn, self.fork(env), b, npc, depth)
                return out
            m = re.fullmatch(r"assert\((!?)(.+?), .*\) -> \[success: (bb\d+), unwind.*\];", term)
            if m:
                c = self.operand(env, m.group(2))
                if m.group(1):
                    c = z3.Not(c)
                out = []
                bad = z3.And(pc, z3.Not(c))
                if self.feasible(bad):
                    out.append((bad, Panic("assert", self.heap_of(env)), self.heap_of(env)))
                good = z3.And(pc, c)
                if self.feasible(good):
                    out += self.run(fn, env, m.group(3), good, depth)
                return out
            m = re.fullmatch(r"(.+?) = (.+?)\((.*)\) -> (?:\[return: (bb\d+), unwind.*\]|unwind.*);", term)
            if m:
                dst, callee, argt, nxt = m.group(1), m.group(2), m.group(3), m.group(4)
                if callee.split("::")[-1] in ("panic", "panic_fmt", "unwrap_failed", "expect_failed", "panic_const_div_by_zero", "panic_nounwind") or callee.endswith("::panic"):
                    return [(pc, Panic(argt[:60], self.heap_of(env)), self.heap_of(env))]
                args = [self.operand(env, a) for a in split_top(argt)] if argt.strip() else []
                self.cur_env = env
                res = self.intrinsic(callee, args, pc)
                if res is None:
                    target = self.resolve(callee)
                    if target is None:
                        raise Unsupported("call to " + callee)
                    res = self.call(target, args, pc, depth + 1, heap=self.heap_of(env))
                else:
                    res = [(z3.And(pc, c), o, self.heap_of(env)) for c, o in res]
                out = []
                for c, o, h in res:
                    if not self.feasible(c):
                        continue
                    if isinstance(o, Panic):
                        if o.env is None:
                            o = Panic(o.msg, h)
                        out.append((c, o, h))
                    elif nxt:
                        e2 = self.fork(env)
                        e2.update(h)
                        self.place_set(e2, dst, o)
                        out += self.run(fn, e2, nxt, c, depth)
                return out
            raise Unsupported("terminator " + term)

    @staticmethod
    def fork(env):
        return dict(env)

    @staticmethod
    def heap_of(env):
        return {k: v for k, v in env.items() if k.startswith("@")}

    def statement(self, fn, env, ln):
        if ln.startswith(("StorageLive", "StorageDead", "nop", "debug ", "FakeRead", "PlaceMention", "Retag", "AscribeUserType")):
            return
        m = re.fullmatch(r"(.+?) = (.+);", ln)
        if not m:
            raise Unsupported("statement " + ln)
        self.place_set(env, m.group(1), self.rvalue(env, fn, m.group(1), m.group(2)))


# ----------------------------------------------------------------------------------------------- obligations
HALF = 1 << 47
UPPER = 0xffff_8000_0000_0000


def canonical(x):
    return z3.Or(z3.ULT(x, BV64(HALF)), z3.UGE(x, BV64(UPPER)))


def phys(x):
    return z3.ULT(x, BV64(1 << 52))


def ext(x):
    return z3.ZeroExt(64, x)


def obligations():
    """(name, self kind, callee key, sizes, arg builder, exact-result builder)"""
    obs = []
    sizes = {"4KiB": 1 << 12, "2MiB": 1 << 21, "1GiB": 1 << 30}
    for ty, inv in (("VirtAddr", canonical), ("PhysAddr", phys)):
        obs.append(dict(name=f"{ty} + u64", key=(ty, "Add<u64>", "add"), kind="addr", ty=ty, inv=inv, op="add", sizes={"-": 0}))
        obs.append(dict(name=f"{ty} - u64", key=(ty, "Sub<u64>", "sub"), kind="addr", ty=ty, inv=inv, op="sub", sizes={"-": 0}))
        obs.append(dict(name=f"{ty} - {ty}", key=(ty, f"Sub<{ty}>", "sub"), kind="addr2", ty=ty, inv=inv, op="diff", sizes={"-": 0}))
        obs.append(dict(name=f"{ty} += u64", key=(ty, "AddAssign<u64>", "add_assign"), kind="addr_assign", ty=ty, inv=inv, op="add", sizes={"-": 0}))
        obs.append(dict(name=f"{ty} -= u64", key=(ty, "SubAssign<u64>", "sub_assign"), kind="addr_assign", ty=ty, inv=inv, op="sub", sizes={"-": 0}))
    for ty, inner, inv in (("Page", "VirtAddr", canonical), ("PhysFrame", "PhysAddr", phys)):
        obs.append(dict(name=f"{ty}<S> + u64", key=(ty, "Add<u64>", "add"), kind="page", ty=ty, inner=inner, inv=inv, op="add", sizes=sizes))
        obs.append(dict(name=f"{ty}<S> - u64", key=(ty, "Sub<u64>", "sub"), kind="page", ty=ty, inner=inner, inv=inv, op="sub", sizes=sizes))
        obs.append(dict(name=f"{ty}<S> - {ty}<S>", key=(ty, f"Sub<{ty}>", "sub"), kind="page2", ty=ty, inner=inner, inv=inv, op="diff", sizes=sizes))
        obs.append(dict(name=f"{ty}<S> += u64", key=(ty, "AddAssign<u64>", "add_assign"), kind="page_assign", ty=ty, inner=inner, inv=inv, op="add", sizes=sizes))
        obs.append(dict(name=f"{ty}<S> -= u64", key=(ty, "SubAssign<u64>", "sub_assign"), kind="page_assign", ty=ty, inner=inner, inv=inv, op="sub", sizes=sizes))
    return obs


def raw_of(v):
    """u64 inside VirtAddr/PhysAddr/Page/PhysFrame values"""
    while isinstance(v, Struct):
        v = v.fields[0]
    return v


def find_fn(fns, key):
    ty, trait, name = key
    for k, f in fns.items():
        if k[0] == ty and k[2] == name and k[1] and Interp.trait_eq(k[1], trait, ty):
            return f
    return None


def cvc5_check(smt2, timeout=120):
    try:
        p = subprocess.run(["cvc5", "--lang", "smt2", "--tlimit", str(timeout * 1000)], input=smt2, capture_output=True, text=True, timeout=timeout + 10)
        out = (p.stdout + p.stderr).strip().split("\n")[0]
        return out if out in ("sat", "unsat") else "unknown:" + out[:60]
    except Exception as e:  # noqa
        return "error:" + str(e)[:60]


def decide(fns, ob, sz_name, sz):
    t0 = time.time()
    it = Interp(fns, sz)
    fn = find_fn(fns, ob["key"])
    if fn is None:
        return dict(verdict="unsupported", why="function not found in MIR: " + str(ob["key"]))
    a, b = z3.BitVec("a", 64), z3.BitVec("b", 64)
    pre = [ob["inv"](a)]
    szv = BV64(sz) if sz else None
    if ob["kind"].startswith("page"):
        pre.append(z3.URem(a, szv) == 0)
    mk_addr = lambda x: Struct(ob.get("inner", ob["ty"]), [x])
    mk_self = (lambda x: Struct(ob["ty"], [mk_addr(x), UNIT])) if ob["kind"].startswith("page") else mk_addr
    heap = {}
    if ob["kind"] in ("addr", "page"):
        args = [mk_self(a), b]
    elif ob["kind"] in ("addr2", "page2"):
        pre.append(ob["inv"](b))
        if ob["kind"] == "page2":
            pre.append(z3.URem(b, szv) == 0)
        args = [mk_self(a), mk_self(b)]
    else:  # assign: &mut self
        heap["@self"] = mk_self(a)
        args = [Ref("@self"), b]
    for p in pre:
        it.solver.add(p)
    try:
        outs = it.call(fn, args, z3.BoolVal(True), heap=heap)
    except Unsupported as e:
        return dict(verdict="unsupported", why=str(e))
    # exact result in 128 bits
    if ob["op"] == "add":
        exact = ext(a) + (ext(b) * z3.BitVecVal(sz, 128) if sz else ext(b))
        fits = z3.ULT(exact, z3.BitVecVal(1 << 64, 128))
    elif ob["op"] == "sub":
        amount = (ext(b) * z3.BitVecVal(sz, 128) if sz else ext(b))
        exact = ext(a) - amount
        fits = z3.ULE(amount, ext(a))
    else:
        exact = ext(a) - ext(b)  # divided by SIZE below
        fits = z3.ULE(ext(b), ext(a))
    bad_paths = []
    n_ret = n_panic = 0
    for pc, o, h in outs:
        if isinstance(o, Panic):
            n_panic += 1
            continue
        n_ret += 1
        res = h["@self"] if ob["kind"].endswith("assign") else o
        r = raw_of(res)
        if ob["op"] == "diff":
            want = z3.UDiv(exact, z3.BitVecVal(sz, 128)) if sz else exact
            wrong = z3.Or(z3.Not(fits), ext(r) != want)
        else:
            wrong = z3.Or(z3.Not(fits), ext(r) != exact)
        bad_paths.append(z3.And(pc, wrong))
    s = z3.Solver()
    for p in pre:
        s.add(p)
    s.add(z3.Or(*bad_paths) if bad_paths else z3.BoolVal(False))
    smt2 = "(set-logic ALL)\n" + s.to_smt2()
    r = s.check()
    res = dict(paths=len(outs), returning_paths=n_ret, panicking_paths=n_panic, z3=str(r), functions=sorted(it.encoded))
    res["cvc5"] = cvc5_check(smt2)
    res["solver_s"] = round(time.time() - t0, 3)
    if str(r) == "unknown" or res["cvc5"] not in ("sat", "unsat") or res["cvc5"] != str(r):
        res["verdict"] = "inconclusive"
        res["why"] = f"z3={r} cvc5={res['cvc5']}"
        return res
    if r == z3.sat:
        m = s.model()
        av, bv = m.eval(a, model_completion=True).as_long(), m.eval(b, model_completion=True).as_long()
        # the value the release build returns on this input
        got = None
        for pc, o, h in outs:
            if isinstance(o, Panic):
                continue
            if z3.is_true(m.eval(pc, model_completion=True)):
                resv = h["@self"] if ob["kind"].endswith("assign") else o
                got = m.eval(raw_of(resv), model_completion=True).as_long()
        res.update(verdict="violated", a=av, b=bv, returns=got)
    else:
        res["verdict"] = "holds"
    return res


# ----------------------------------------------------------------------------------------------- C14: state at a panic
def decide_gdt_append(fns, MAX, system):
    """GlobalDescriptorTable::<MAX>::append from an arbitrary valid table state: on every path that ends in a
    panic, the table (all MAX slots and `len`) must be exactly what it was before the call."""
    t0 = time.time()
    it = Interp(fns, MAX)
    fn = fns.get(("GlobalDescriptorTable", None, "append"))
    if fn is None:
        return dict(verdict="unsupported", why="append not found in MIR")
    slots = [z3.BitVec(f"e{i}", 64) for i in range(MAX)]
    ln = z3.BitVec("len", 64)
    lo, hi = z3.BitVec("lo", 64), z3.BitVec("hi", 64)
    pre = [z3.UGE(ln, BV64(1)), z3.ULE(ln, BV64(MAX))]
    init = Struct("GlobalDescriptorTable", [Array([Struct("Entry", [x]) for x in slots]), ln])
    heap = {"@self": init}
    desc = Enum("Descriptor", "SystemSegment", [lo, hi]) if system else Enum("Descriptor", "UserSegment", [lo])
    for p in pre:
        it.solver.add(p)
    try:
        outs = it.call(fn, [Ref("@self"), desc], z3.BoolVal(True), heap=heap)
    except Unsupported as e:
        return dict(verdict="unsupported", why=str(e))
    need = 2 if system else 1
    bad = []
    n_panic = n_ret = 0
    for pc, o, h in outs:
        st = (o.env if isinstance(o, Panic) and o.env is not None else h)["@self"]
        elems = [raw_of(e) for e in st.fields[0].elems]
        changed = z3.Or(st.fields[1] != ln, *[a != b for a, b in zip(elems, slots)])
        fits = z3.ULE(ln + BV64(need), BV64(MAX))
        if isinstance(o, Panic):
            n_panic += 1
            bad.append(z3.And(pc, changed))          # a refused append left a trace
            bad.append(z3.And(pc, fits))             # ... or an append that fits panicked
        else:
            n_ret += 1
            bad.append(z3.And(pc, z3.Not(fits)))     # an append that does not fit returned
    sv = z3.Solver()
    for p in pre:
        sv.add(p)
    sv.add(z3.Or(*bad) if bad else z3.BoolVal(False))
    smt2 = "(set-logic ALL)\n" + sv.to_smt2()
    r = sv.check()
    res = dict(paths=len(outs), returning_paths=n_ret, panicking_paths=n_panic, z3=str(r), cvc5=cvc5_check(smt2),
               functions=sorted(it.encoded), solver_s=round(time.time() - t0, 3), MAX=MAX, system=system)
    if str(r) == "unknown" or res["cvc5"] != str(r):
        res.update(verdict="inconclusive", why=f"z3={r} cvc5={res['cvc5']}")
    elif r == z3.sat:
        m = sv.model()
        res.update(verdict="violated", len=m.eval(ln, model_completion=True).as_long(),
                   lo=m.eval(lo, model_completion=True).as_long(), hi=m.eval(hi, model_completion=True).as_long(),
                   slots=[m.eval(x, model_completion=True).as_long() for x in slots])
    else:
        res["verdict"] = "holds"
    return res


# ----------------------------------------------------------------------------------------------- C06: alignment (release)
def align_obligations():
    return [
        dict(name="align_down(u64, u64)", key=(None, None, "align_down"), self_ty=None, op="down"),
        dict(name="align_up(u64, u64)", key=(None, None, "align_up"), self_ty=None, op="up"),
        dict(name="VirtAddr::align_down_u64", key=("VirtAddr", None, "align_down_u64"), self_ty="VirtAddr", op="down"),
        dict(name="PhysAddr::align_down_u64", key=("PhysAddr", None, "align_down_u64"), self_ty="PhysAddr", op="down"),
        dict(name="VirtAddr::is_aligned_u64", key=("VirtAddr", None, "is_aligned_u64"), self_ty="VirtAddr", op="is"),
        dict(name="PhysAddr::is_aligned_u64", key=("PhysAddr", None, "is_aligned_u64"), self_ty="PhysAddr", op="is"),
    ]


def decide_align(fns, ob):
    """Release-profile semantics of the alignment helpers: returns the exact rounded value for a power-of-two
    alignment (VirtAddr: alignments up to 2^47), panics exactly when the alignment is not a power of two or the
    rounded value does not fit in 64 bits."""
    t0 = time.time()
    it = Interp(fns, 0)
    fn = fns.get(ob["key"])
    if fn is None:
        return dict(verdict="unsupported", why="function not found in MIR: " + str(ob["key"]))
    a, al = z3.BitVec("a", 64), z3.BitVec("b", 64)
    pre = []
    if ob["self_ty"] == "VirtAddr":
        pre += [canonical(a), z3.ULE(al, BV64(1 << 47))]
    elif ob["self_ty"] == "PhysAddr":
        pre += [phys(a)]
    args = [Struct(ob["self_ty"], [a]) if ob["self_ty"] else a, al]
    for c in pre:
        it.solver.add(c)
    try:
        outs = it.call(fn, args, z3.BoolVal(True))
    except Unsupported as e:
        return dict(verdict="unsupported", why=str(e))
    pow2 = z3.And(al != 0, (al & (al - 1)) == 0)
    mask = al - 1
    down = a & ~mask
    up = ext(down) + z3.If((a & mask) == 0, z3.BitVecVal(0, 128), ext(al))
    up_fits = z3.ULT(up, z3.BitVecVal(1 << 64, 128))
    bad = []
    n_ret = n_panic = 0
    for pc, o, _h in outs:
        if isinstance(o, Panic):
            n_panic += 1
            must_return = z3.And(pow2, up_fits) if ob["op"] == "up" else pow2
            bad.append(z3.And(pc, must_return))
            continue
        n_ret += 1
        if ob["op"] == "is":
            r = o if z3.is_bool(o) else (raw_of(o) != 0)
            wrong = z3.Or(z3.Not(pow2), r != ((a & mask) == 0))
        elif ob["op"] == "down":
            wrong = z3.Or(z3.Not(pow2), raw_of(o) != down)
        else:
            wrong = z3.Or(z3.Not(pow2), z3.Not(up_fits), ext(raw_of(o)) != up)
        bad.append(z3.And(pc, wrong))
    sv = z3.Solver()
    for c in pre:
        sv.add(c)
    sv.add(z3.Or(*bad) if bad else z3.BoolVal(False))
    smt2 = "(set-logic ALL)\n" + sv.to_smt2()
    r = sv.check()
    res = dict(paths=len(outs), returning_paths=n_ret, panicking_paths=n_panic, z3=str(r), cvc5=cvc5_check(smt2),
               functions=sorted(it.encoded), solver_s=round(time.time() - t0, 3), op=ob["op"], self_ty=ob["self_ty"])
    if str(r) == "unknown" or res["cvc5"] != str(r):
        res.update(verdict="inconclusive", why=f"z3={r} cvc5={res['cvc5']}")
    elif r == z3.sat:
        m = sv.model()
        av, bv = m.eval(a, model_completion=True).as_long(), m.eval(al, model_completion=True).as_long()
        got = "PANIC"
        for pc, o, _h in outs:
            if not isinstance(o, Panic) and z3.is_true(m.eval(pc, model_completion=True)):
                v = m.eval(o if z3.is_bool(o) else raw_of(o), model_completion=True)
                got = (str(v).lower() if z3.is_bool(v) else f"{v.as_long():#x}")
        res.update(verdict="violated", a=av, b=bv, returns=got)
    else:
        res["verdict"] = "holds"
    return res


def replay_align(scratch, results):
    """Counterexamples of decide_align against the real crate, release profile."""
    cases = [r for r in results if r.get("verdict") == "violated"]
    if not cases:
        return {}
    d = os.path.join(scratch, "m_replay_align")
    os.makedirs(os.path.join(d, "src"), exist_ok=True)
    open(os.path.join(d, "Cargo.toml"), "w").write(
        '[package]\nname = "m_replay_align"\nversion = "0.0.0"\nedition = "2021"\n\n[dependencies]\nx86_64 = { path = ".." }\n\n[workspace]\n\n'
        '[profile.release]\noverflow-checks = false\ndebug-assertions = false\n')
    body = ["use x86_64::{PhysAddr, VirtAddr};", "use std::panic::catch_unwind;",
            "fn show(i: usize, r: std::thread::Result<String>) { match r { Ok(v) => println!(\"{}|{}\", i, v), Err(_) => println!(\"{}|PANIC\", i) } }",
            "fn main() {", "    std::panic::set_hook(Box::new(|_| {}));"]
    for i, r in enumerate(cases):
        a, b = r["a"], r["b"]
        ty = r["self_ty"]
        if ty is None:
            expr = f'format!("{{:#x}}", x86_64::{"align_down" if r["op"] == "down" else "align_up"}({a:#x}u64, {b:#x}u64))'
        elif r["op"] == "down":
            expr = f'format!("{{:#x}}", unsafe {{ {ty}::new_unsafe({a:#x}) }}.align_down({b:#x}u64).as_u64())'
        else:
            expr = f'format!("{{}}", unsafe {{ {ty}::new_unsafe({a:#x}) }}.is_aligned({b:#x}u64))'
        body.append(f"    show({i}, catch_unwind(|| {expr}));")
    body.append("}")
    open(os.path.join(d, "src", "main.rs"), "w").write("\n".join(body) + "\n")
    env = dict(os.environ, CARGO_NET_OFFLINE="true", CARGO_TARGET_DIR=os.path.join(scratch, "target-mreplay"))
    env.pop("RUSTUP_TOOLCHAIN", None)
    lock = os.path.join(scratch, "Cargo.lock")
    if os.path.exists(lock):
        import shutil
        shutil.copy(lock, os.path.join(d, "Cargo.lock"))
    p = subprocess.run(["cargo", "+nightly", "run", "--offline", "--release", "-q"], cwd=d, env=env, capture_output=True, text=True, timeout=900)
    out = {}
    for line in p.stdout.splitlines():
        if "|" in line:
            n, v = line.split("|", 1)
            out[int(n)] = v
    res = {}
    for i, r in enumerate(cases):
        got = out.get(i)
        res[r["obligation"]] = dict(returned=got, predicted=r.get("returns"), reproduced=(got is not None and got == r.get("returns")),
                                    build_error=(p.stderr[-600:] if got is None else ""))
    return res


def replay_gdt(scratch, results):
    """Run the counterexamples of decide_gdt_append against the real crate (catch_unwind around append)."""
    cases = [r for r in results if r.get("verdict") == "violated"]
    if not cases:
        return {}
    d = os.path.join(scratch, "m_replay_gdt")
    os.makedirs(os.path.join(d, "src"), exist_ok=True)
    open(os.path.join(d, "Cargo.toml"), "w").write(
        '[package]\nname = "m_replay_gdt"\nversion = "0.0.0"\nedition = "2021"\n\n[dependencies]\nx86_64 = { path = ".." }\n\n[workspace]\n')
    body = ["use x86_64::structures::gdt::{Descriptor, GlobalDescriptorTable};", "use std::panic::{catch_unwind, AssertUnwindSafe};",
            "fn main() {", "    std::panic::set_hook(Box::new(|_| {}));"]
    for i, r in enumerate(cases):
        MAX, n = r["MAX"], r["len"]
        raw = ", ".join(["0"] + [f"{v:#x}" for v in r["slots"][1:n]])
        dsc = f"Descriptor::SystemSegment({r['lo']:#x}, {r['hi']:#x})" if r["system"] else f"Descriptor::UserSegment({r['lo']:#x})"
        body += [f"    {{ let mut t = GlobalDescriptorTable::<{MAX}>::from_raw_entries(&[{raw}]);",
                 "      let before: Vec<u64> = t.entries().iter().map(|e| e.raw()).collect(); let lim = t.limit();",
                 f"      let r = catch_unwind(AssertUnwindSafe(|| {{ t.append({dsc}); }}));",
                 "      let after: Vec<u64> = t.entries().iter().map(|e| e.raw()).collect();",
                 f"      println!(\"{i}|{{}}|{{}}\", r.is_err(), before == after && lim == t.limit()); }}"]
    body.append("}")
    open(os.path.join(d, "src", "main.rs"), "w").write("\n".join(body) + "\n")
    env = dict(os.environ, CARGO_NET_OFFLINE="true", CARGO_TARGET_DIR=os.path.join(scratch, "target-mreplay"))
    env.pop("RUSTUP_TOOLCHAIN", None)
    lock = os.path.join(scratch, "Cargo.lock")
    if os.path.exists(lock):
        import shutil
        shutil.copy(lock, os.path.join(d, "Cargo.lock"))
    p = subprocess.run(["cargo", "+nightly", "run", "--offline", "-q"], cwd=d, env=env, capture_output=True, text=True, timeout=900)
    out = {}
    for line in p.stdout.splitlines():
        parts = line.split("|")
        if len(parts) == 3:
            out[int(parts[0])] = (parts[1] == "true", parts[2] == "true")
    res = {}
    for i, r in enumerate(cases):
        panicked, unchanged = out.get(i, (None, None))
        res[r["obligation"]] = dict(panicked=panicked, unchanged=unchanged, reproduced=(panicked is True and unchanged is False) or (panicked is False),
                                    build_error=(p.stderr[-500:] if i not in out else ""))
    return res


def dump_mir(scratch):
    env = dict(os.environ, CARGO_NET_OFFLINE="true", CARGO_TARGET_DIR=os.path.join(scratch, "target-mir"))
    env.pop("RUSTUP_TOOLCHAIN", None)
    subprocess.run(["touch", "src/lib.rs"], cwd=scratch)
    p = subprocess.run(["cargo", "+nightly", "rustc", "--offline", "--lib", "--", "-Zunpretty=mir", "-C", "debug-assertions=off", "-C", "overflow-checks=off"],
                       cwd=scratch, env=env, capture_output=True, text=True, timeout=900)
    if p.returncode != 0 or "fn " not in p.stdout:
        raise RuntimeError("MIR dump failed: " + p.stderr[-2000:])
    return p.stdout


def selftest(fns):
    """Validate the encoder on the repository's own unit-test vectors (tests in src/addr.rs):
    VirtAddr::new_truncate and align_up/align_down values."""
    it = Interp(fns, 0)
    checks = []
    nt = fns.get(("VirtAddr", None, "new_truncate"))
    vectors = [(0, 0), (1 << 47, 0xfffff << 47), (123, 123), (123 << 47, 0xfffff << 47)]
    for x, want in vectors:
        outs = it.call(nt, [BV64(x)], z3.BoolVal(True))
        got = z3.simplify(raw_of(outs[0][1])).as_long()
        checks.append(("new_truncate", x, got == want & (2**64 - 1)))
    ad = fns.get((None, None, "align_down"))
    for (x, al, want) in [(0x1234, 0x1000, 0x1000), (0xffff_8000_0000_0000, 1 << 48, 0xffff_0000_0000_0000)]:
        outs = it.call(ad, [BV64(x), BV64(al)], z3.BoolVal(True))
        vals = [z3.simplify(o).as_long() for pc, o, _h in outs if not isinstance(o, Panic) and it.feasible(pc)]
        checks.append(("align_down", x, vals == [want]))
    return checks


def main():
    scratch, out = sys.argv[1], sys.argv[2]
    t0 = time.time()
    mir = dump_mir(scratch)
    fns = parse_mir(mir, scratch)
    st = selftest(fns)
    results = []
    for ob in (obligations() if not ("--gdt" in sys.argv or "--align" in sys.argv) else []):
        for sz_name, sz in ob["sizes"].items():
            r = decide(fns, ob, sz_name, sz)
            r["obligation"] = ob["name"] + ("" if sz_name == "-" else f" [S={sz_name}]")
            r["size"] = sz
            r["kind"] = ob["kind"]
            r["ty"] = ob["ty"]
            r["op"] = ob["op"]
            results.append(r)
    gdt = []
    if "--gdt" in sys.argv:
        results = []
        for MAX in [int(x) for x in os.environ.get("VERIF_M_MAXES", "2,3,8").split(",")]:
            for system in (False, True):
                r = decide_gdt_append(fns, MAX, system)
                r["obligation"] = f"GlobalDescriptorTable::<{MAX}>::append({'System' if system else 'User'}Segment): a panicking append leaves the table unchanged; panics exactly when it does not fit"
                results.append(r)
    if "--align" in sys.argv:
        results = []
        for ob in align_obligations():
            r = decide_align(fns, ob)
            r["obligation"] = ob["name"] + ": exact rounded value, panics exactly for a non-power-of-two alignment / overflow (release profile)"
            results.append(r)
    json.dump(dict(results=results, selftest=[dict(fn=a, input=b, ok=c) for a, b, c in st], mir_functions=len(fns), wall_s=round(time.time() - t0, 2)), open(out, "w"), indent=1)


if __name__ == "__main__":
    main()


# ----------------------------------------------------------------------------------------------- native replay
def replay_release(scratch, results):
    """Compile the counterexamples against the real crate in the release profile and run them.
    Returns {obligation: dict(returned=hex|'PANIC', reproduced=bool)}."""
    cases = [r for r in results if r.get("verdict") == "violated"]
    if not cases:
        return {}
    d = os.path.join(scratch, "m_replay")
    os.makedirs(os.path.join(d, "src"), exist_ok=True)
    open(os.path.join(d, "Cargo.toml"), "w").write(
        '[package]\nname = "m_replay"\nversion = "0.0.0"\nedition = "2021"\n\n[dependencies]\nx86_64 = { path = ".." }\n\n[workspace]\n\n'
        '[profile.release]\noverflow-checks = false\ndebug-assertions = false\n')
    body = ["use x86_64::structures::paging::{Page, PhysFrame, Size1GiB, Size2MiB, Size4KiB};",
            "use x86_64::{PhysAddr, VirtAddr};", "use std::panic::catch_unwind;",
            "fn show(name: &str, r: std::thread::Result<u64>) { match r { Ok(v) => println!(\"{}|{:#x}\", name, v), Err(_) => println!(\"{}|PANIC\", name) } }",
            "fn main() {", "    std::panic::set_hook(Box::new(|_| {}));"]
    sizes = {1 << 12: "Size4KiB", 1 << 21: "Size2MiB", 1 << 30: "Size1GiB"}
    for r in cases:
        a, b, name = r["a"], r["b"], r["obligation"]
        ty = r["ty"]
        opch = {"add": "+", "sub": "-"}.get(r["op"], "-")
        if r["kind"] in ("addr", "addr_assign"):
            mk = f"unsafe {{ {ty}::new_unsafe({a:#x}) }}"
            if r["kind"] == "addr":
                expr = f"({mk} {opch} {b:#x}u64).as_u64()"
            else:
                expr = f"{{ let mut x = {mk}; x {opch}= {b:#x}u64; x.as_u64() }}"
        elif r["kind"] in ("page", "page_assign"):
            inner = "VirtAddr" if ty == "Page" else "PhysAddr"
            mk = f"unsafe {{ {ty}::<{sizes[r['size']]}>::from_start_address_unchecked({inner}::new_unsafe({a:#x})) }}"
            if r["kind"] == "page":
                expr = f"({mk} {opch} {b:#x}u64).start_address().as_u64()"
            else:
                expr = f"{{ let mut x = {mk}; x {opch}= {b:#x}u64; x.start_address().as_u64() }}"
        else:
            continue
        body.append(f'    show("{name}", catch_unwind(|| {expr}));')
    body.append("}")
    open(os.path.join(d, "src", "main.rs"), "w").write("\n".join(body) + "\n")
    env = dict(os.environ, CARGO_NET_OFFLINE="true", CARGO_TARGET_DIR=os.path.join(scratch, "target-mreplay"))
    env.pop("RUSTUP_TOOLCHAIN", None)
    lock = os.path.join(scratch, "Cargo.lock")
    if os.path.exists(lock):
        import shutil
        shutil.copy(lock, os.path.join(d, "Cargo.lock"))
    p = subprocess.run(["cargo", "+nightly", "run", "--offline", "--release", "-q"], cwd=d, env=env, capture_output=True, text=True, timeout=900)
    out = {}
    for line in p.stdout.splitlines():
        if "|" in line:
            n, v = line.split("|", 1)
            out[n] = v
    res = {}
    for r in cases:
        got = out.get(r["obligation"])
        want = f"{r['returns']:#x}" if r.get("returns") is not None else None
        res[r["obligation"]] = dict(returned=got, predicted=want, reproduced=(got is not None and got == want),
                                    build_error=(p.stderr[-600:] if got is None else ""))
    return res
