#!/usr/bin/env python3
"""Run the registered checks against seeded property-breaking (or behaviour-preserving) changes.

usage: tools/seeded_run.py [--dir D] [--out F] [--tier quick|thorough] [-j N] [--props C01,C02] [ids...]

Default: every change under /verif/seeded/<id>/ (patch.diff + meta.json), its property's quick check, results in
/verif/seeded/RESULTS.json.  With --dir D the changes are D/<id>.diff (property = first three characters of the id
unless --props is given) and the results go to --out.

Neither /repo nor the live /verif is touched: each change is applied to a scratch export of /repo's HEAD
(`git archive`), selected through VERIF_REPO, and the checks run from a frozen copy of /verif taken at start, with
evidence and replays redirected to the scratch directory.  This is the same as `git -C /repo apply` + check +
`git -C /repo checkout -- .`, but several changes can be examined at once and development can go on meanwhile."""
import concurrent.futures as cf
import json, os, shutil, subprocess, sys, tempfile, time

VERIF = os.path.dirname(os.path.dirname(os.path.abspath(__file__)))
HEAVY = {"C01", "C02", "C09", "C10", "C13", "C08"}


def run_one(frozen, root, mid, patch, props_to_run, tier):
    work = os.path.join(root, mid)
    os.makedirs(work + "/repo")
    subprocess.run(f"git -C /repo archive HEAD | tar -x -C {work}/repo", shell=True, check=True)
    r = subprocess.run(["git", "apply", os.path.abspath(patch)], cwd=work + "/repo", capture_output=True, text=True)
    if r.returncode != 0:
        r = subprocess.run(["patch", "-p1", "-s", "-i", os.path.abspath(patch)], cwd=work + "/repo", capture_output=True, text=True)
        if r.returncode != 0:
            shutil.rmtree(work, ignore_errors=True)
            return mid, dict(error="patch does not apply: " + (r.stderr or r.stdout)[:200])
    env = dict(os.environ, VERIF_REPO=work + "/repo", VERIF_EVIDENCE_DIR=work + "/ev", VERIF_REPLAY_DIR=work + "/rep",
               VERIF_SCRATCH=work)
    if not os.environ.get("SEEDED_FULL") and not os.environ.get("VERIF_ONLY"):
        # page-table family: run only the harnesses of the mapper(s) the change can reach (a subset that reports the
        # violation is a lower bound for the registered check, which runs a superset)
        files = " ".join(l[6:].strip() for l in open(patch) if l.startswith("+++ b/"))
        if files.strip().endswith("mapper/recursive_page_table.rs"):
            env["VERIF_SKIP"] = "_off_,pt_map,pt_unmap,pt_upd,pt_tr,pt_pf,pt_mapto,pt_ident,ptt_"
        elif files.strip().endswith("mapper/offset_page_table.rs"):
            env["VERIF_ONLY"] = "_off_,c09_,c01_,c02_"
        elif files.strip().endswith("mapper/mapped_page_table.rs"):
            env["VERIF_SKIP"] = "ptr_,ptrt_,c10_rec,c10t_rec"
    out = {}
    for prop in props_to_run:
        t0 = time.time()
        try:
            p = subprocess.run([f"{frozen}/check", prop, tier], cwd=frozen, env=env, capture_output=True, text=True, timeout=4 * 3600)
            rc, text = p.returncode, p.stdout + p.stderr
        except subprocess.TimeoutExpired:
            rc, text = -9, "timeout"
        viol = [l for l in text.splitlines() if l.startswith("VIOLATION")]
        detail = [l.strip() for l in text.splitlines() if l.startswith("  harness=")]
        other = [l.strip()[:300] for l in text.splitlines() if l.startswith(("INCONCLUSIVE", "UNCONFIRMED", "KNOWN-FINDING"))]
        out[prop] = dict(rc=rc, caught=(rc == 1 and bool(viol)), violation_lines=len(viol), first=detail[:3],
                         subset=dict(only=env.get("VERIF_ONLY", ""), skip=env.get("VERIF_SKIP", "")),
                         notes=other[:4], wall_s=round(time.time() - t0))
        print(f"{mid} {prop}: rc={rc} caught={out[prop]['caught']} {round(time.time()-t0)}s {detail[:1] or other[:1]}", flush=True)
    shutil.rmtree(work, ignore_errors=True)
    return mid, out


def main():
    args = sys.argv[1:]
    d = out = None
    tier, jobs, props_arg = "quick", 1, None
    ids = []
    while args:
        a = args.pop(0)
        if a == "--dir":
            d = args.pop(0)
        elif a == "--out":
            out = args.pop(0)
        elif a == "--tier":
            tier = args.pop(0)
        elif a == "-j":
            jobs = int(args.pop(0))
        elif a == "--props":
            props_arg = args.pop(0).split(",")
        else:
            ids.append(a)
    items = []
    if d:
        for f in sorted(os.listdir(d)):
            if f.endswith(".diff") and (not ids or f[:-5] in ids):
                items.append((f[:-5], os.path.join(d, f), props_arg or [f[:3]]))
        out = out or os.path.join(d, "RESULTS.json")
    else:
        for mid in ids or sorted(x for x in os.listdir(f"{VERIF}/seeded") if os.path.isdir(f"{VERIF}/seeded/{x}")):
            meta = json.load(open(f"{VERIF}/seeded/{mid}/meta.json"))
            items.append((mid, f"{VERIF}/seeded/{mid}/patch.diff", props_arg or [meta["property"]] + meta.get("also_check", [])))
        out = out or f"{VERIF}/seeded/RESULTS.json"
    results = json.load(open(out)) if os.path.exists(out) else {}
    root = tempfile.mkdtemp(prefix="seeded.", dir="/var/tmp")
    frozen = os.path.join(root, "verif")
    subprocess.run(["rsync", "-a", "--exclude", ".git", "--exclude", "evidence", "--exclude", "replays", VERIF + "/", frozen + "/"], check=True)
    try:
        light = [it for it in items if not (set(it[2]) & HEAVY)]
        heavy = [it for it in items if set(it[2]) & HEAVY]

        def record(mid, res):
            if d is None and "error" not in res:
                # /verif/seeded/RESULTS.json keeps the historical flat shape for the main property
                main_prop = json.load(open(f"{VERIF}/seeded/{mid}/meta.json"))["property"]
                flat = dict(res.get(main_prop, {}), property=main_prop)
                flat["others"] = {k: v for k, v in res.items() if k != main_prop}
                results[mid] = flat
            else:
                results[mid] = res
            json.dump(results, open(out, "w"), indent=1, sort_keys=True)

        with cf.ThreadPoolExecutor(max_workers=max(1, jobs)) as ex:
            futs = [ex.submit(run_one, frozen, root, mid, patch, ps, tier) for mid, patch, ps in light]
            for f in cf.as_completed(futs):
                record(*f.result())
        for mid, patch, ps in heavy:
            record(*run_one(frozen, root, mid, patch, ps, tier))
    finally:
        shutil.rmtree(root, ignore_errors=True)


main()
