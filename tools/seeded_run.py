#!/usr/bin/env python3
"""Run the registered quick checks against the seeded property-breaking changes in /verif/seeded.

usage: tools/seeded_run.py [ids...]      (default: all whose property has a check)
Each change is applied to /repo (git apply), the property's quick check is run with evidence and
replays redirected to a scratch directory, and /repo is restored (git checkout -- .) straight after.
Results: /verif/seeded/RESULTS.json (which check caught which change)."""
import json, os, subprocess, sys, time, tempfile
VERIF = os.path.dirname(os.path.dirname(os.path.abspath(__file__)))
sys.path.insert(0, os.path.join(VERIF, "tools"))
import props
def main():
    ids = sys.argv[1:] or sorted(d for d in os.listdir(f"{VERIF}/seeded") if os.path.isdir(f"{VERIF}/seeded/{d}"))
    respath = f"{VERIF}/seeded/RESULTS.json"
    results = json.load(open(respath)) if os.path.exists(respath) else {}
    scratch = tempfile.mkdtemp(prefix="seeded-ev.", dir="/var/tmp")
    env = dict(os.environ, VERIF_EVIDENCE_DIR=scratch, VERIF_REPLAY_DIR=os.path.join(scratch, "replays"))
    assert subprocess.run(["git", "-C", "/repo", "status", "--porcelain", "--untracked-files=no"], capture_output=True, text=True).stdout.strip() == "", "/repo not clean"
    for mid in ids:
        meta = json.load(open(f"{VERIF}/seeded/{mid}/meta.json"))
        prop = meta["property"]
        extra = meta.get("also_check", [])
        if prop not in props.PROPS or props.PROPS[prop].get("not_applicable"):
            print(f"{mid}: no check for {prop} yet"); continue
        r = subprocess.run(["git", "-C", "/repo", "apply", f"{VERIF}/seeded/{mid}/patch.diff"], capture_output=True, text=True)
        if r.returncode != 0:
            print(f"{mid}: patch does not apply: {r.stderr[:200]}"); continue
        try:
            t0 = time.time()
            p = subprocess.run([f"{VERIF}/check", prop, "quick"], cwd=VERIF, env=env, capture_output=True, text=True, timeout=7200)
            viol = [l for l in p.stdout.splitlines() if l.startswith("VIOLATION")]
            detail = [l.strip() for l in p.stdout.splitlines() if l.startswith("  harness=")]
            results[mid] = dict(property=prop, rc=p.returncode, caught=(p.returncode == 1 and bool(viol)),
                                violation_lines=len(viol), first=detail[:3], wall_s=round(time.time() - t0),
                                tail=p.stdout.strip().splitlines()[-1:] )
            print(f"{mid}: rc={p.returncode} caught={results[mid]['caught']} {detail[:1]}", flush=True)
        finally:
            subprocess.run(["git", "-C", "/repo", "checkout", "--", "."], check=True)
        json.dump(results, open(respath, "w"), indent=1, sort_keys=True)
    subprocess.run(["rm", "-rf", scratch])
main()
