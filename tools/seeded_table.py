#!/usr/bin/env python3
"""Regenerate the table "which check catches which seeded change" in DESIGN.md (between the SEEDED-TABLE markers)
from seeded/*/meta.json and seeded/RESULTS.json."""
import json, os, re
V = os.path.dirname(os.path.dirname(os.path.abspath(__file__)))
res = json.load(open(f"{V}/seeded/RESULTS.json"))
rows = ["| id | change (one line) | quick check | caught by (first obligation reported) |", "|---|---|---|---|"]
n = c = 0
for mid in sorted(d for d in os.listdir(f"{V}/seeded") if os.path.isfile(f"{V}/seeded/{d}/meta.json")):
    meta = json.load(open(f"{V}/seeded/{mid}/meta.json"))
    r = res.get(mid)
    summ = (meta.get("summary") or "").replace("|", "/").replace("\n", " ")
    summ = summ[:150] + ("..." if len(summ) > 150 else "")
    if not r:
        rows.append(f"| {mid} | {summ} | {meta['property']} | (not run) |")
        continue
    n += 1
    if r.get("caught"):
        c += 1
        first = (r.get("first") or [""])[0]
        m = re.search(r"harness=(\S+) obligation=(.*?)(?: at |$)", first)
        how = (m.group(1).rsplit("::", 1)[-1] + ": " + m.group(2)[:110]) if m else "engine M (MIR): release-profile / panic-state obligation"
        sub = (r.get("subset") or {}).get("only") or ""
        note = f" [harness subset: {sub}]" if sub else ""
        rows.append(f"| {mid} | {summ} | {meta['property']} ({r.get('wall_s')} s){note} | {how.replace('|', '/')} |")
    else:
        others = [k for k, v in (r.get("others") or {}).items() if v.get("caught")]
        note = ("; " + r["manual_note"]) if r.get("manual_note") else ""
        rows.append(f"| {mid} | {summ} | {meta['property']} | **not caught by the quick tier in the recorded run** (rc={r.get('rc')}){'; caught by ' + ','.join(others) if others else ''}{note} |")
rows.append("")
rows.append(f"{c} of {n} seeded changes are caught by the quick check of the property they were written against.  "
            "`[harness subset: ..]` = the run was restricted (`VERIF_ONLY`) to the named harnesses of that quick check to save "
            "machine time (each full page-table check is ~15 min, 25-35 min with replays): the registered command runs a superset, "
            "so a violation found by the subset is found by it as well.")
p = f"{V}/DESIGN.md"
s = open(p).read()
a, b = "<!-- SEEDED-TABLE-BEGIN -->", "<!-- SEEDED-TABLE-END -->"
if a in s:
    s = s[:s.index(a) + len(a)] + "\n" + "\n".join(rows) + "\n" + s[s.index(b):]
    open(p, "w").write(s)
print("\n".join(rows[-3:]))
