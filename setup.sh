#!/bin/sh
# Offline setup: the machinery is Python + harness sources (Kani compiles per run) + one 50-line C filter.
set -e
cd "$(dirname "$0")"
python3 -c "import json,sys; json.load(open('MANIFEST.json'))"
command -v cargo-kani >/dev/null || { echo "cargo-kani missing"; exit 1; }
mkdir -p evidence replays
# optional: CBMC output filter (tools/kani_run.py builds it on demand as well; without it the shim is a no-op)
(gcc -O2 -o tools/bin/cbmc_filter tools/src/cbmc_filter.c || cc -O2 -o tools/bin/cbmc_filter tools/src/cbmc_filter.c) 2>/dev/null || true
echo setup ok
