#!/bin/sh
# Offline setup: nothing to build -- the machinery is Python + harness sources; Kani compiles per run.
set -e
cd "$(dirname "$0")"
python3 -c "import json,sys; json.load(open('MANIFEST.json'))"
command -v cargo-kani >/dev/null || { echo "cargo-kani missing"; exit 1; }
mkdir -p evidence replays
echo setup ok
